//! C07 (printer side): parentheses decisions against the fixed grouping table of C10.
use crate::c10::{spec_level, spec_right_assoc};
use crate::kproof;
use crate::util::*;
use blots_core::ast::*;
use blots_core::ast_to_source::needs_parens_in_binop;

/// Parentheses are required around a binary child of a binary parent exactly when re-parsing
/// the unparenthesised text would group differently: child binds looser, or same level on the
/// side the level does not associate to.
pub fn parens_required(parent: BinaryOp, child: BinaryOp, is_left: bool) -> bool {
    let lp = spec_level(parent);
    let lc = spec_level(child);
    if lc < lp {
        return true;
    }
    if lc == lp {
        return if spec_right_assoc(parent) { is_left } else { !is_left };
    }
    false
}

kproof!(plain, 28, fn c07_q_parens_table_binop_in_binop() {
    let parent = any_binop();
    let child = any_binop();
    let is_left: bool = kani::any();
    let child_expr = arena::binop(child, Expr::Null, Expr::Null);
    let got = needs_parens_in_binop(&parent, &child_expr, is_left);
    let want = parens_required(parent, child, is_left);
    // soundness direction (meaning preserved): every required pair is parenthesised
    assert!(!want || got);
    kani::cover!(want && got, "some pair needs parens");
    kani::cover!(!want && !got, "some pair needs none");
    std::mem::forget(child_expr);
});
