//! self-checks of the harness infrastructure (run with every family that relies on them)
use crate::kproof;
use crate::util::*;
use blots_core::heap::*;
use blots_core::values::*;

/// the word layout assumed by arena::write_words: size 24, tag word = declaration index,
/// payload at offset 8
kproof!(plain, 9, fn c00_q_value_word_layout() {
    assert!(std::mem::size_of::<Value>() == 24 && std::mem::align_of::<Value>() == 8);
    let a: f64 = kani::any();
    let i: usize = kani::any();
    let vals = [Value::Number(a), Value::Null, Value::List(ListPointer::new(i)), Value::String(StringPointer::new(i)), Value::Lambda(LambdaPointer::new(i)), Value::BuiltIn(blots_core::functions::BuiltInFunction::Min), Value::BuiltIn(blots_core::functions::BuiltInFunction::Ulte)];
    let mut k = 0;
    while k < 7 {
        let mut slot = [0u64; 3];
        unsafe { arena::write_words(slot.as_mut_ptr(), vals[k]); }
        let back: Value = unsafe { std::ptr::read(slot.as_ptr() as *const Value) };
        assert!(same_value(back, vals[k]));
        k += 1;
    }
    kani::cover!(true, "reach-end");
});
