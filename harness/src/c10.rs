//! C10 (table clause): the precedence/associativity table the Pratt parser is generated from.
use crate::kproof;
use crate::util::*;
use blots_core::ast::BinaryOp;
use blots_core::precedence::{Assoc, operator_info};

/// the fixed table of the property statement (level, right-assoc?)
pub fn spec_level(op: BinaryOp) -> u8 {
    use BinaryOp::*;
    match op {
        And | NaturalAnd | Or | NaturalOr | Via | Into | Where => 1,
        Equal | NotEqual | Less | LessEq | Greater | GreaterEq | DotEqual | DotNotEqual | DotLess
        | DotLessEq | DotGreater | DotGreaterEq => 2,
        Add | Subtract => 3,
        Multiply | Divide | Modulo => 4,
        Power => 5,
        Coalesce => 6,
    }
}
pub fn spec_right_assoc(op: BinaryOp) -> bool {
    matches!(op, BinaryOp::Power)
}

kproof!(plain, 28, fn c10_q_operator_info_matches_table() {
    let op = any_binop();
    let (prec, assoc) = operator_info(&op); // also: never hits its expect()
    let right = matches!(assoc, Assoc::Right);
    assert!(right == spec_right_assoc(op));
    // same level <=> same number, looser level <=> smaller number (checked pairwise below);
    // here: the two ends of the table
    let lvl = spec_level(op);
    assert!((lvl == 1) == (prec == operator_info(&BinaryOp::And).0));
    assert!((lvl == 6) == (prec == operator_info(&BinaryOp::Coalesce).0));
    kani::cover!(true, "reach-end");
});

kproof!(plain, 28, fn c10_q_levels_monotone_and_spellings() {
    let a = any_binop();
    let b = any_binop();
    let (pa, _) = operator_info(&a);
    let (pb, _) = operator_info(&b);
    // the source table is order-isomorphic to the statement's table
    if spec_level(a) < spec_level(b) {
        assert!(pa < pb);
    }
    if spec_level(a) == spec_level(b) {
        assert!(pa == pb);
    }
    // word and symbol spellings sit on the same level with the same associativity
    let (p1, a1) = operator_info(&BinaryOp::And);
    let (p2, a2) = operator_info(&BinaryOp::NaturalAnd);
    let (p3, a3) = operator_info(&BinaryOp::Or);
    let (p4, a4) = operator_info(&BinaryOp::NaturalOr);
    assert!(p1 == p2 && p3 == p4 && p1 == p3);
    assert!(matches!(a1, Assoc::Left) && matches!(a2, Assoc::Left) && matches!(a3, Assoc::Left) && matches!(a4, Assoc::Left));
    kani::cover!(true, "reach-end");
});
