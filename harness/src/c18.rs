//! C18 (guard logic): the call-depth guard fires before the body and depth grows by one per call.
use crate::kproof;
use crate::util::*;
use blots_core::ast::*;
use blots_core::expressions::evaluate_ast;
use blots_core::functions::{BuiltInFunction, FunctionDef};
use blots_core::values::*;

// FunctionDef::call on a built-in with a symbolic call depth: Err iff depth > 1000, and the
// built-in's own result otherwise.
#[cfg(kani)]
#[kani::proof]
#[kani::unwind(4)]
#[kani::stub(std::hash::RandomState::new, crate::util::stub_random_state_new)]
        #[kani::stub(alloc::alloc::dealloc, crate::util::stub_dealloc)]
        #[kani::stub(alloc::alloc::dealloc_nonnull, crate::util::stub_dealloc_nonnull)]
        #[kani::stub(alloc::alloc::realloc, crate::util::stub_realloc)]
        #[kani::stub(alloc::alloc::realloc_nonnull, crate::util::stub_realloc_nonnull)]
#[kani::stub(std::backtrace::Backtrace::capture, crate::util::stub_backtrace_capture)]
#[kani::stub(alloc::fmt::format, crate::util::stub_format)]
        #[kani::stub(blots_core::values::Value::stringify, crate::util::stub_stringify)]
        #[kani::stub(blots_core::units::convert, crate::util::stub_units_convert)]
#[kani::stub(::anyhow::Error::msg, crate::util::stub_anyhow_msg_panic)]
#[kani::stub(::anyhow::__private::format_err, crate::util::stub_anyhow_format_err_panic)]
#[kani::stub(std::time::Instant::now, crate::util::stub_instant_now)]
        #[kani::stub(std::sync::Mutex::lock, crate::util::stub_mutex_lock)]
pub fn c18_q_builtin_depth_guard() {
    let depth: usize = kani::any();
    let a: f64 = kani::any();
    let heap = arena::heap();
    let def = FunctionDef::BuiltIn(BuiltInFunction::Abs);
    let r = def.call(Value::BuiltIn(BuiltInFunction::Abs), crate::av![Value::Number(a)], heap.clone(), arena::env(), depth, "");
    if depth > 1000 {
        assert!(r.is_err());
    } else {
        match r {
            Ok(v) => assert!(same_value(v, Value::Number(a.abs()))),
            Err(_) => panic!("call within the depth limit failed"),
        }
    }
    kani::cover!(depth == 1000, "reach the limit");
    kani::cover!(depth == 1001, "reach just over the limit");
    std::mem::forget(heap);
}

// ---- propagation: the depth a callee receives does not depend on what the call is wrapped in ----
// FunctionDef::call is replaced by a recorder (util::stub_function_def_call_record_depth).  For a
// symbolic depth d the bare call `x into abs` and the wrapped call are both evaluated at depth d; the
// callee must see the same depth in both, so conditionals, do-blocks, operators, list elements and
// the via/into/where operators neither consume nor skip call depth.  Differential on purpose: a
// refactoring that moves the increment (call site vs callee) changes both sides alike.
macro_rules! c18_propagation {
    ($name:ident, $unwind:literal, |$x:ident, $c:ident| $wrapped:expr) => {
        #[cfg(kani)]
        #[kani::proof]
        #[kani::unwind($unwind)]
        #[kani::stub(std::hash::RandomState::new, crate::util::stub_random_state_new)]
        #[kani::stub(alloc::alloc::dealloc, crate::util::stub_dealloc)]
        #[kani::stub(alloc::alloc::dealloc_nonnull, crate::util::stub_dealloc_nonnull)]
        #[kani::stub(alloc::alloc::realloc, crate::util::stub_realloc)]
        #[kani::stub(alloc::alloc::realloc_nonnull, crate::util::stub_realloc_nonnull)]
        #[kani::stub(std::backtrace::Backtrace::capture, crate::util::stub_backtrace_capture)]
        #[kani::stub(alloc::fmt::format, crate::util::stub_format)]
        #[kani::stub(blots_core::values::Value::stringify, crate::util::stub_stringify)]
        #[kani::stub(blots_core::units::convert, crate::util::stub_units_convert)]
        #[kani::stub(::anyhow::Error::msg, crate::util::stub_anyhow_msg_panic)]
        #[kani::stub(::anyhow::__private::format_err, crate::util::stub_anyhow_format_err_panic)]
        #[kani::stub(std::time::Instant::now, crate::util::stub_instant_now)]
        #[kani::stub(std::sync::Mutex::lock, crate::util::stub_mutex_lock)]
        #[kani::stub(blots_core::functions::FunctionDef::call, crate::util::stub_function_def_call_record_depth)]
        pub fn $name() {
            let d: usize = kani::any();
            kani::assume(d < usize::MAX - 8);
            let x: f64 = kani::any();
            let c: bool = kani::any();
            let heap = arena::heap();
            let bare = sp(abs_call(x));
            let r0 = evaluate_ast(&bare, heap.clone(), arena::env(), d, src());
            let (seen_bare, calls0) = unsafe { (DEPTH_SEEN, CALLS_SEEN) };
            assert!(r0.is_ok() && calls0 == CALLS_SEEN_BASE + 1);
            // (built in place: a call through a `fn` pointer would make CBMC consider every
            // function of that type, i.e. every wrapper shape of this file, in every harness)
            let ($x, $c): (f64, bool) = (x, c);
            let wrapped: SpannedExpr = $wrapped;
            let r1 = evaluate_ast(&wrapped, heap.clone(), arena::env(), d, src());
            let (seen_wrapped, calls1) = unsafe { (DEPTH_SEEN, CALLS_SEEN) };
            assert!(r1.is_ok() && calls1 == CALLS_SEEN_BASE + 2);
            assert!(seen_wrapped == seen_bare);
            kani::cover!(d == 1000, "at the limit");
            kani::cover!(d == 0, "top level");
            std::mem::forget((bare, wrapped));
            std::mem::forget(heap);
        }
    };
}
/// the call every wrapper contains: `x into abs` (the Call arm `abs(x)` of evaluate_ast does not
/// finish under CBMC even with the callee stubbed - see DESIGN section 2 - so `into` is the call form)
fn abs_call(x: f64) -> Expr {
    arena::binop_e(BinaryOp::Into, num(x), Expr::BuiltIn(BuiltInFunction::Abs))
}
c18_propagation!(c18_q_depth_through_conditional, 6, |x, c| sp(Expr::Conditional {
    condition: arena::bx(Expr::Bool(c)),
    then_expr: arena::bx(abs_call(x)),
    else_expr: arena::bx(abs_call(x)),
}));
c18_propagation!(c18_t_depth_through_operator, 6, |x, c| arena::binop(BinaryOp::Coalesce, abs_call(x), num(1.0)));
c18_propagation!(c18_t_depth_through_list_element, 6, |x, c| sp(arena::list1(abs_call(x))));
c18_propagation!(c18_q_depth_through_via, 6, |x, c| arena::binop(BinaryOp::Via, num(x), Expr::BuiltIn(BuiltInFunction::Abs)));
c18_propagation!(c18_t_depth_through_where, 6, |x, c| arena::binop(BinaryOp::Where, arena::list1(num(x)), Expr::BuiltIn(BuiltInFunction::Abs)));
// do-block wrappers (Environment::extend + drop of the block scope) did not finish in 20 min and are
// not registered; the conditional harness above decides the same `call_depth` plumbing pattern.
