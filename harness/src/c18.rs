//! C18 (guard logic): the call-depth guard fires before the body and depth grows by one per call.
use crate::kproof;
use crate::util::*;
use blots_core::ast::*;
use blots_core::expressions::evaluate_ast;
use blots_core::functions::{BuiltInFunction, FunctionDef};
use blots_core::values::*;

// FunctionDef::call on a built-in with a symbolic call depth: Err iff depth > 1000, and the
// built-in's own result otherwise.
#[cfg(kani)]
#[kani::proof]
#[kani::unwind(4)]
#[kani::stub(std::hash::RandomState::new, crate::util::stub_random_state_new)]
        #[kani::stub(alloc::alloc::dealloc, crate::util::stub_dealloc)]
        #[kani::stub(alloc::alloc::dealloc_nonnull, crate::util::stub_dealloc_nonnull)]
        #[kani::stub(alloc::alloc::realloc, crate::util::stub_realloc)]
        #[kani::stub(alloc::alloc::realloc_nonnull, crate::util::stub_realloc_nonnull)]
#[kani::stub(std::backtrace::Backtrace::capture, crate::util::stub_backtrace_capture)]
#[kani::stub(alloc::fmt::format, crate::util::stub_format)]
        #[kani::stub(blots_core::values::Value::stringify, crate::util::stub_stringify)]
        #[kani::stub(blots_core::units::convert, crate::util::stub_units_convert)]
#[kani::stub(::anyhow::Error::msg, crate::util::stub_anyhow_msg_panic)]
#[kani::stub(::anyhow::__private::format_err, crate::util::stub_anyhow_format_err_panic)]
#[kani::stub(std::time::Instant::now, crate::util::stub_instant_now)]
        #[kani::stub(std::sync::Mutex::lock, crate::util::stub_mutex_lock)]
pub fn c18_q_builtin_depth_guard() {
    let depth: usize = kani::any();
    let a: f64 = kani::any();
    let heap = arena::heap();
    let def = FunctionDef::BuiltIn(BuiltInFunction::Abs);
    let r = def.call(Value::BuiltIn(BuiltInFunction::Abs), crate::av![Value::Number(a)], heap.clone(), arena::env(), depth, "");
    if depth > 1000 {
        assert!(r.is_err());
    } else {
        match r {
            Ok(v) => assert!(same_value(v, Value::Number(a.abs()))),
            Err(_) => panic!("call within the depth limit failed"),
        }
    }
    kani::cover!(depth == 1000, "reach the limit");
    kani::cover!(depth == 1001, "reach just over the limit");
    std::mem::forget(heap);
}
