//! C04 (arity clause): arity classes.
use crate::kproof;
use crate::util::*;
use blots_core::functions::{BuiltInFunction, FunctionDef};
use blots_core::values::FunctionArity;

kproof!(plain, 2, fn c04_q_can_accept_all_usize() {
    let n: usize = kani::any();
    let a: usize = kani::any();
    let b: usize = kani::any();
    assert!(FunctionArity::Exact(a).can_accept(n) == (n == a));
    assert!(FunctionArity::AtLeast(a).can_accept(n) == (n >= a));
    assert!(FunctionArity::Between(a, b).can_accept(n) == (a <= n && n <= b));
    kani::cover!(true, "reach-end");
});
