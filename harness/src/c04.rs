//! C04 (arity clause): arity classes.
use crate::kproof;
use crate::util::*;
use blots_core::functions::{BuiltInFunction, FunctionDef};
use blots_core::values::FunctionArity;

kproof!(plain, 2, fn c04_q_can_accept_all_usize() {
    let n: usize = kani::any();
    let a: usize = kani::any();
    let b: usize = kani::any();
    assert!(FunctionArity::Exact(a).can_accept(n) == (n == a));
    assert!(FunctionArity::AtLeast(a).can_accept(n) == (n >= a));
    assert!(FunctionArity::Between(a, b).can_accept(n) == (a <= n && n <= b));
    kani::cover!(true, "reach-end");
});

// ---------------------------------------------------------------------------------------------
// check_arity: "any other argument count is reported as an error", for every argument count
use blots_core::ast::*;
use blots_core::values::{CapturedScope, LambdaArg, LambdaDef};
use std::collections::HashMap;

fn lambda_def(args: Vec<LambdaArg>) -> FunctionDef {
    FunctionDef::Lambda(LambdaDef {
        name: None,
        args,
        body: sp(Expr::Null),
        scope: CapturedScope::new(HashMap::new()),
        source: src(),
    })
}
fn req(n: &str) -> LambdaArg {
    LambdaArg::Required(String::from(n))
}
fn opt(n: &str) -> LambdaArg {
    LambdaArg::Optional(String::from(n))
}
fn rest(n: &str) -> LambdaArg {
    LambdaArg::Rest(String::from(n))
}

/// parameter list shape -> (min, max or None for a rest parameter)
macro_rules! c04_lambda_arity {
    ($name:ident, $args:expr, $min:expr, $max:expr) => {
        kproof!(noerr, 6, fn $name() {
            let n: usize = kani::any();
            let def = lambda_def($args);
            let r = def.check_arity(n);
            let max: Option<usize> = $max;
            let want_ok = n >= $min && match max { Some(m) => n <= m, None => true };
            assert!(r.is_ok() == want_ok);
            assert!(def.arity().can_accept(n) == want_ok);
            kani::cover!(want_ok, "reach an accepted count");
            // a lone rest parameter accepts every count: there is no rejected count to reach
            kani::cover!(!want_ok || ($min == 0 && max.is_none()), "reach a rejected count (where one exists)");
            std::mem::forget(def);
        });
    };
}
c04_lambda_arity!(c04_q_arity_req_req, vec![req("a"), req("b")], 2, Some(2));
c04_lambda_arity!(c04_q_arity_req_opt, vec![req("a"), opt("b")], 1, Some(2));
c04_lambda_arity!(c04_q_arity_req_rest, vec![req("a"), rest("r")], 1, None);
c04_lambda_arity!(c04_t_arity_none, vec![], 0, Some(0));
c04_lambda_arity!(c04_t_arity_opt_opt, vec![opt("a"), opt("b")], 0, Some(2));
c04_lambda_arity!(c04_t_arity_rest, vec![rest("r")], 0, None);
c04_lambda_arity!(c04_t_arity_req_opt_rest, vec![req("a"), opt("b"), rest("r")], 1, None);

/// built-ins: check_arity agrees with arity().can_accept for every argument count
kproof!(noerr, 4, fn c04_q_builtin_check_arity_agrees() {
    let n: usize = kani::any();
    let i: usize = kani::any();
    kani::assume(i < 63);
    let f = crate::c01::BUILTINS[i];
    let def = FunctionDef::BuiltIn(f);
    assert!(def.check_arity(n).is_ok() == f.arity().can_accept(n));
    // the documented classes of a few built-ins
    assert!(BuiltInFunction::Slice.arity().can_accept(n) == (n == 3));
    assert!(BuiltInFunction::Round.arity().can_accept(n) == (n == 1 || n == 2));
    assert!(BuiltInFunction::Min.arity().can_accept(n) == (n >= 1));
    assert!(BuiltInFunction::Concat.arity().can_accept(n) == (n >= 2));
    kani::cover!(true, "reach-end");
});

// ---------------------------------------------------------------------------------------------
// positional binding, binding phase only: every argument count that the arity check lets through
// is bound without indexing out of range.  The lambda body is cut (evaluate_ast stubbed) and the
// insertions into the call-local map are no-ops (HashMap::insert stubbed): what is decided is the
// indexing of the argument vector, not what ends up bound.
macro_rules! c04_binding_phase {
    ($name:ident, $args:expr, $vals:expr) => {
        #[cfg(kani)]
        #[kani::proof]
        #[kani::unwind(20)]
        #[kani::stub(std::hash::RandomState::new, crate::util::stub_random_state_new)]
        #[kani::stub(alloc::alloc::dealloc, crate::util::stub_dealloc)]
        #[kani::stub(alloc::alloc::dealloc_nonnull, crate::util::stub_dealloc_nonnull)]
        #[kani::stub(std::backtrace::Backtrace::capture, crate::util::stub_backtrace_capture)]
        #[kani::stub(alloc::fmt::format, crate::util::stub_format)]
        #[kani::stub(std::time::Instant::now, crate::util::stub_instant_now)]
        #[kani::stub(std::sync::Mutex::lock, crate::util::stub_mutex_lock)]
        #[kani::stub(::anyhow::Error::msg, crate::util::stub_anyhow_msg_cut)]
        #[kani::stub(::anyhow::__private::format_err, crate::util::stub_anyhow_format_err_cut)]
        #[kani::stub(blots_core::expressions::evaluate_ast, crate::util::stub_evaluate_ast_null)]
        #[kani::stub(std::collections::HashMap::insert, crate::util::stub_hashmap_insert)]
        pub fn $name() {
            let a: f64 = kani::any();
            let def = lambda_def($args);
            let heap = arena::heap();
            let mk: fn(f64) -> Vec<Value> = $vals;
            let args = mk(a);
            kani::cover!(def.check_arity(args.len()).is_ok(), "the arity check accepts this call");
            let _ = def.call(Value::Null, args, heap.clone(), arena::env(), 0, "");
            std::mem::forget((def, heap));
        }
    };
}
use blots_core::values::Value;
c04_binding_phase!(c04_q_binding_optional_before_required_1, vec![opt("a"), req("b")], |a| crate::av![Value::Number(a)]);
c04_binding_phase!(c04_t_binding_optional_before_required_2, vec![opt("a"), req("b")], |a| crate::av![Value::Number(a), Value::Null]);
c04_binding_phase!(c04_t_binding_rest_before_required_1, vec![rest("r"), req("b")], |a| crate::av![Value::Number(a)]);
c04_binding_phase!(c04_t_binding_opt_opt_req_1, vec![opt("a"), opt("b"), req("c")], |a| crate::av![Value::Number(a)]);
c04_binding_phase!(c04_t_binding_req_opt_rest_1, vec![req("a"), opt("b"), rest("r")], |a| crate::av![Value::Number(a)]);
c04_binding_phase!(c04_t_binding_req_opt_rest_3, vec![req("a"), opt("b"), rest("r")], |a| crate::av![Value::Number(a), Value::Null, Value::Number(a)]);
c04_binding_phase!(c04_t_binding_req_req_2, vec![req("a"), req("b")], |a| crate::av![Value::Number(a), Value::Null]);
c04_binding_phase!(c04_t_binding_single_optional_no_arg, vec![opt("a")], |_a| crate::av![]);
