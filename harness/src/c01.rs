//! C01 (evaluator / built-in stage): no input makes a built-in or an evaluator arm panic,
//! overflow or index out of range.  Oracle = Kani's own checks on the code of /repo
//! (panics, unwrap/expect, slice indexing, arithmetic overflow, unreachable!).
//!
//! All harnesses are `cut` harnesses with ONE call under test: building a type-error value ends
//! the path (what follows is `?` propagation).  The built-in is a *symbolic* choice among all
//! built-ins that accept the argument count, so every arm of BuiltInFunction::call is entered
//! with every argument shape below.
use crate::av;
use crate::c14::call_bi;
use crate::kproof;
use crate::util::*;
use blots_core::ast::*;
use blots_core::expressions::evaluate_ast;
use blots_core::functions::BuiltInFunction as B;
use blots_core::values::*;

fn n(x: f64) -> Value {
    Value::Number(x)
}
pub const BUILTINS: [B; 63] = [
    B::Sqrt, B::Sin, B::Cos, B::Tan, B::Asin, B::Acos, B::Atan, B::Log, B::Log10, B::Exp, B::Abs, B::Floor, B::Ceil, B::Round, B::Trunc, B::Random,
    B::Min, B::Max, B::Avg, B::Sum, B::Prod, B::Median, B::Percentile,
    B::Len, B::Head, B::Tail, B::Slice, B::Concat, B::Dot, B::Unique, B::Sort, B::SortBy, B::Reverse, B::Any, B::All,
    B::Map, B::Reduce, B::Filter, B::Every, B::Some,
    B::Split, B::Join, B::Replace, B::Trim, B::Uppercase, B::Lowercase, B::Includes,
    B::Typeof, B::Arity, B::Keys, B::Values, B::Entries,
    B::GroupBy, B::CountBy, B::Flatten, B::Zip, B::Chunk,
    B::ToNumber, B::ToBool, B::Ugt, B::Ult, B::Ugte, B::Ulte,
];
// not in the table (stated as outside): Range (own harnesses: its loop is proportional to the
// argument), ToString / Format / Print (float -> text), Convert (unit table scan over Unicode
// lower-casing), TimeNow (clock FFI)

pub const G_MATH1: [B; 8] = [B::Sqrt, B::Abs, B::Floor, B::Ceil, B::Trunc, B::Round, B::Random, B::Exp];
pub const G_AGG: [B; 6] = [B::Min, B::Max, B::Avg, B::Sum, B::Prod, B::Median];
pub const G_LIST1: [B; 9] = [B::Len, B::Head, B::Tail, B::Unique, B::Sort, B::Reverse, B::Any, B::All, B::Flatten];
pub const G_TYPE1: [B; 11] = [B::ToNumber, B::ToBool, B::Typeof, B::Arity, B::Keys, B::Values, B::Entries, B::Trim, B::Uppercase, B::Lowercase, B::Len];
pub const G_NUM2: [B; 8] = [B::Percentile, B::Dot, B::Chunk, B::Round, B::Ugt, B::Ult, B::Ugte, B::Ulte];
pub const G_HOF2: [B; 11] = [B::Map, B::Filter, B::Every, B::Some, B::SortBy, B::GroupBy, B::CountBy, B::Join, B::Split, B::Concat, B::Zip];
pub const G_ARGS3: [B; 3] = [B::Slice, B::Replace, B::Reduce];

#[cfg(kani)]
fn pick<const N: usize>(g: &[B; N]) -> B {
    let i: usize = kani::any();
    kani::assume(i < N);
    g[i]
}
#[cfg(kani)]
fn any_scalar() -> Value {
    let k: u8 = kani::any();
    if k == 0 { Value::Number(kani::any()) } else if k == 1 { Value::Bool(kani::any()) } else { Value::Null }
}

/// one call of a symbolically chosen built-in of group `$g` on the argument vector `$args`
macro_rules! c01_group {
    ($name:ident, $unwind:literal, $g:expr, |$a:ident, $b:ident, $c:ident, $l:ident, $v:ident, $w:ident| $args:expr, $cover:expr) => {
        kproof!(cut, $unwind, fn $name() {
            let ($a, $b, $c): (f64, f64, f64) = (kani::any(), kani::any(), kani::any());
            let $v = any_scalar();
            let $w = any_scalar();
            let $l = arena::list_cell(vec![n($a), n($b)]);
            let f = pick(&$g);
            let heap = arena::heap();
            let cv: fn(B, f64, f64, f64) -> bool = $cover;
            kani::cover!(cv(f, $a, $b, $c), "reach the interesting input");
            let _ = call_bi(f, $args, &heap);
            std::mem::forget(heap);
        });
    };
}
c01_group!(c01_q_math1_any_double, 5, G_MATH1, |a, b, c, l, v, w| av![n(a)], |f, a, _b, _c| matches!(f, B::Random) && a.is_nan());
c01_group!(c01_t_math1_any_scalar, 5, G_MATH1, |a, b, c, l, v, w| av![v], |f, _a, _b, _c| matches!(f, B::Round));
c01_group!(c01_q_agg_two_doubles, 6, G_AGG, |a, b, c, l, v, w| av![n(a), n(b)], |f, a, _b, _c| matches!(f, B::Median) && a.is_nan());
c01_group!(c01_q_agg_list2, 6, G_AGG, |a, b, c, l, v, w| av![l], |f, a, _b, _c| matches!(f, B::Median) && a.is_nan());
c01_group!(c01_t_agg_one_scalar, 6, G_AGG, |a, b, c, l, v, w| av![v], |f, _a, _b, _c| matches!(f, B::Median));
c01_group!(c01_t_agg_two_scalars, 6, G_AGG, |a, b, c, l, v, w| av![v, w], |f, _a, _b, _c| matches!(f, B::Avg));
c01_group!(c01_q_list1_list2, 6, G_LIST1, |a, b, c, l, v, w| av![l], |f, a, _b, _c| matches!(f, B::Sort) && a.is_nan());
c01_group!(c01_t_list1_scalar, 6, G_LIST1, |a, b, c, l, v, w| av![v], |f, _a, _b, _c| matches!(f, B::Tail));
c01_group!(c01_t_type1_scalar, 6, G_TYPE1, |a, b, c, l, v, w| av![v], |f, _a, _b, _c| matches!(f, B::ToBool));
c01_group!(c01_t_type1_list2, 6, G_TYPE1, |a, b, c, l, v, w| av![l], |f, _a, _b, _c| matches!(f, B::Typeof));
c01_group!(c01_q_num2_list_double, 6, G_NUM2, |a, b, c, l, v, w| av![l, n(c)], |f, a, _b, c| (matches!(f, B::Percentile) && a.is_nan()) || (matches!(f, B::Chunk) && c > 0.0 && c < 1.0));
c01_group!(c01_q_num2_two_doubles, 6, G_NUM2, |a, b, c, l, v, w| av![n(a), n(c)], |f, _a, _b, c| matches!(f, B::Round) && c == f64::NEG_INFINITY);
c01_group!(c01_t_num2_two_scalars, 6, G_NUM2, |a, b, c, l, v, w| av![v, w], |f, _a, _b, _c| matches!(f, B::Ugt));
c01_group!(c01_t_num2_two_lists, 6, G_NUM2, |a, b, c, l, v, w| av![l, l], |f, _a, _b, _c| matches!(f, B::Dot));
c01_group!(c01_t_hof2_list_scalar, 6, G_HOF2, |a, b, c, l, v, w| av![l, v], |f, _a, _b, _c| matches!(f, B::Map));
c01_group!(c01_t_hof2_two_scalars, 6, G_HOF2, |a, b, c, l, v, w| av![v, w], |f, _a, _b, _c| matches!(f, B::Zip));
c01_group!(c01_t_hof2_two_lists, 6, G_HOF2, |a, b, c, l, v, w| av![l, l], |f, _a, _b, _c| matches!(f, B::Concat));
c01_group!(c01_q_args3_list_double_double, 6, G_ARGS3, |a, b, c, l, v, w| av![l, n(a), n(c)], |f, a, _b, _c| matches!(f, B::Slice) && a.is_nan());
c01_group!(c01_t_args3_three_scalars, 6, G_ARGS3, |a, b, c, l, v, w| av![v, w, v], |f, _a, _b, _c| matches!(f, B::Slice));

// empty lists: the aggregates and percentile (the other built-ins on [] are exercised by C14 / C15)
kproof!(cut, 6, fn c01_q_agg_empty_list() {
    let e = arena::list_cell(vec![]);
    let f = pick(&G_AGG);
    let heap = arena::heap();
    kani::cover!(matches!(f, B::Median), "reach median([])");
    let _ = call_bi(f, av![e], &heap);
    std::mem::forget(heap);
});
kproof!(cut, 6, fn c01_q_percentile_empty_list() {
    let p: f64 = kani::any();
    let e = arena::list_cell(vec![]);
    let heap = arena::heap();
    kani::cover!(p == 50.0, "reach percentile([], 50)");
    let _ = call_bi(B::Percentile, av![e, n(p)], &heap);
    std::mem::forget(heap);
});

// ---- range: guards for every pair of doubles (list construction itself bounded away) --------
kproof!(cut, 6, fn c01_q_range_guards_any_doubles() {
    let (a, b): (f64, f64) = (kani::any(), kani::any());
    // the list-building loop is proportional to b - a: pairs that would build 2 .. 2^32 elements
    // are assumed away, every other pair (incl. +-1e19, inf, NaN) is executed
    kani::assume(!(a.is_finite() && b.is_finite() && b - a > 1.0 && b - a <= 4294967300.0));
    let heap = arena::heap();
    kani::cover!(a < -1e19 && b > 1e19, "reach beyond i64");
    let _ = call_bi(B::Range, av![n(a), n(b)], &heap);
    std::mem::forget(heap);
});
kproof!(cut, 6, fn c01_q_range1_guards_any_double() {
    let b: f64 = kani::any();
    kani::assume(!(b.is_finite() && b > 1.0 && b <= 4294967300.0));
    let heap = arena::heap();
    kani::cover!(b > 1e19, "reach beyond i64");
    let _ = call_bi(B::Range, av![n(b)], &heap);
    std::mem::forget(heap);
});

// ---- evaluator arms on scalars ---------------------------------------------------------------
kproof!(cut_nocall, 9, fn c01_q_factorial_total() {
    let a: f64 = kani::any();
    // factorial's product loop runs n times: executed for n <= 6 (and every non-integer / negative)
    kani::assume(!(a > 6.5));
    let heap = arena::heap();
    let e = sp(Expr::PostfixOp { op: PostfixOp::Factorial, expr: arena::bx(num(a)) });
    kani::cover!(a == 6.0, "reach 6!");
    let _ = evaluate_ast(&e, heap.clone(), arena::env(), 0, src());
    std::mem::forget(e);
    std::mem::forget(heap);
});
macro_rules! c01_unary {
    ($name:ident, $mk:expr) => {
        kproof!(cut_nocall, 4, fn $name() {
            let a: f64 = kani::any();
            let t: bool = kani::any();
            let heap = arena::heap();
            let mk: fn(f64, bool) -> Expr = $mk;
            let e = sp(mk(a, t));
            kani::cover!(a.is_nan(), "reach NaN");
            let _ = evaluate_ast(&e, heap.clone(), arena::env(), 0, src());
            std::mem::forget(e);
            std::mem::forget(heap);
        });
    };
}
c01_unary!(c01_q_negate_number, |a, _t| Expr::UnaryOp { op: UnaryOp::Negate, expr: arena::bx(num(a)) });
c01_unary!(c01_t_negate_bool, |_a, t| Expr::UnaryOp { op: UnaryOp::Negate, expr: arena::bx(Expr::Bool(t)) });
c01_unary!(c01_t_not_bool, |_a, t| Expr::UnaryOp { op: UnaryOp::Not, expr: arena::bx(Expr::Bool(t)) });
c01_unary!(c01_t_invert_number, |a, _t| Expr::UnaryOp { op: UnaryOp::Invert, expr: arena::bx(num(a)) });
c01_unary!(c01_t_spread_number, |a, _t| Expr::Spread(arena::bx(num(a))));
c01_unary!(c01_t_spread_null, |_a, _t| Expr::Spread(arena::bx(Expr::Null)));
