//! C01 (evaluator / built-in stage): no input makes a built-in or an evaluator arm panic,
//! overflow or index out of range.  Oracle = Kani's own checks on the code of /repo
//! (panics, unwrap/expect, slice indexing, arithmetic overflow, unreachable!).
//!
//! All harnesses are `cut` harnesses with ONE call under test: building a type-error value ends
//! the path (what follows is `?` propagation).  The built-in is a *symbolic* choice among all
//! built-ins that accept the argument count, so every arm of BuiltInFunction::call is entered
//! with every argument shape below.
use crate::av;
use crate::c14::call_bi;
use crate::kproof;
use crate::util::*;
use blots_core::ast::*;
use blots_core::expressions::evaluate_ast;
use blots_core::functions::BuiltInFunction as B;
use blots_core::values::*;

fn n(x: f64) -> Value {
    Value::Number(x)
}
pub const BUILTINS: [B; 63] = [
    B::Sqrt, B::Sin, B::Cos, B::Tan, B::Asin, B::Acos, B::Atan, B::Log, B::Log10, B::Exp, B::Abs, B::Floor, B::Ceil, B::Round, B::Trunc, B::Random,
    B::Min, B::Max, B::Avg, B::Sum, B::Prod, B::Median, B::Percentile,
    B::Len, B::Head, B::Tail, B::Slice, B::Concat, B::Dot, B::Unique, B::Sort, B::SortBy, B::Reverse, B::Any, B::All,
    B::Map, B::Reduce, B::Filter, B::Every, B::Some,
    B::Split, B::Join, B::Replace, B::Trim, B::Uppercase, B::Lowercase, B::Includes,
    B::Typeof, B::Arity, B::Keys, B::Values, B::Entries,
    B::GroupBy, B::CountBy, B::Flatten, B::Zip, B::Chunk,
    B::ToNumber, B::ToBool, B::Ugt, B::Ult, B::Ugte, B::Ulte,
];
// not in the table (stated as outside): Range (own harnesses: its loop is proportional to the
// argument), ToString / Format / Print (float -> text), Convert (unit table scan over Unicode
// lower-casing), TimeNow (clock FFI)

pub const G_AGG: [B; 6] = [B::Min, B::Max, B::Avg, B::Sum, B::Prod, B::Median];
/// one call of the concrete built-in `$f` on the argument vector `$args`
// NOTE on `c01_x_*` harnesses (not registered, never selected by run_kani.py): the shapes with
// scalars of *symbolic kind* (`_s`, `_ss`, `_sss`) and three `includes` harnesses were written in
// the first generation and never validated; the first full thorough run (build round, 2026-10-04)
// showed them failing or running out of memory on the unchanged tree for reasons of the model, not
// of the code: `includes` goes through `Value::reify -> ReifiedValue::List(&Vec, ListPointer)`, an
// enum variant whose aggregate construction Kani 0.68 mis-models like `Expr::Call` (DESIGN 2(12):
// the `&Vec` read back is a misaligned non-pointer), and a symbolic kind is a symbolic selector
// (DESIGN 2(1)).  They are kept for reference only.
macro_rules! c01_call {
    ($name:ident, $f:expr, |$a:ident, $b:ident, $c:ident, $l:ident, $v:ident, $w:ident| $args:expr) => {
        kproof!(cut, 6, fn $name() {
            let ($a, $b, $c): (f64, f64, f64) = (kani::any(), kani::any(), kani::any());
            let $v = any_scalar();
            let $w = any_scalar();
            let $l = arena::list_cell(vec![n($a), n($b)]);
            // chunk size / slice bounds are divisors or lengths inside the callee: keep them in
            // {NaN, negative, 0..4, huge} so that no 64-bit division circuit has a free divisor
            kani::assume($c.is_nan() || $c < 4.0 || $c > 1e300);
            let heap = arena::heap();
            kani::cover!($a.is_nan(), "reach NaN");
            kani::cover!($c > 0.0 && $c < 1.0, "reach a fraction below one");
            let _ = call_bi($f, $args, &heap);
            std::mem::forget(heap);
        });
    };
}
#[cfg(kani)]
fn any_scalar() -> Value {
    let k: u8 = kani::any();
    if k == 0 { Value::Number(kani::any()) } else if k == 1 { Value::Bool(kani::any()) } else { Value::Null }
}

c01_call!(c01_q_sqrt_d, B::Sqrt, |a, b, c, l, v, w| av![n(a)]);
c01_call!(c01_t_abs_d, B::Abs, |a, b, c, l, v, w| av![n(a)]);
c01_call!(c01_t_floor_d, B::Floor, |a, b, c, l, v, w| av![n(a)]);
c01_call!(c01_t_ceil_d, B::Ceil, |a, b, c, l, v, w| av![n(a)]);
c01_call!(c01_t_trunc_d, B::Trunc, |a, b, c, l, v, w| av![n(a)]);
c01_call!(c01_q_round_d, B::Round, |a, b, c, l, v, w| av![n(a)]);
c01_call!(c01_q_random_d, B::Random, |a, b, c, l, v, w| av![n(a)]);
c01_call!(c01_t_exp_d, B::Exp, |a, b, c, l, v, w| av![n(a)]);
c01_call!(c01_t_log_d, B::Log, |a, b, c, l, v, w| av![n(a)]);
c01_call!(c01_t_sin_d, B::Sin, |a, b, c, l, v, w| av![n(a)]);
c01_call!(c01_t_min_d, B::Min, |a, b, c, l, v, w| av![n(a)]);
c01_call!(c01_t_max_d, B::Max, |a, b, c, l, v, w| av![n(a)]);
c01_call!(c01_t_avg_d, B::Avg, |a, b, c, l, v, w| av![n(a)]);
c01_call!(c01_t_sum_d, B::Sum, |a, b, c, l, v, w| av![n(a)]);
c01_call!(c01_t_prod_d, B::Prod, |a, b, c, l, v, w| av![n(a)]);
c01_call!(c01_t_median_d, B::Median, |a, b, c, l, v, w| av![n(a)]);
c01_call!(c01_t_len_d, B::Len, |a, b, c, l, v, w| av![n(a)]);
c01_call!(c01_t_head_d, B::Head, |a, b, c, l, v, w| av![n(a)]);
c01_call!(c01_t_tail_d, B::Tail, |a, b, c, l, v, w| av![n(a)]);
c01_call!(c01_t_unique_d, B::Unique, |a, b, c, l, v, w| av![n(a)]);
c01_call!(c01_t_sort_d, B::Sort, |a, b, c, l, v, w| av![n(a)]);
c01_call!(c01_t_reverse_d, B::Reverse, |a, b, c, l, v, w| av![n(a)]);
c01_call!(c01_t_any_d, B::Any, |a, b, c, l, v, w| av![n(a)]);
c01_call!(c01_t_all_d, B::All, |a, b, c, l, v, w| av![n(a)]);
c01_call!(c01_t_flatten_d, B::Flatten, |a, b, c, l, v, w| av![n(a)]);
c01_call!(c01_t_tonumber_d, B::ToNumber, |a, b, c, l, v, w| av![n(a)]);
c01_call!(c01_t_tobool_d, B::ToBool, |a, b, c, l, v, w| av![n(a)]);
c01_call!(c01_t_typeof_d, B::Typeof, |a, b, c, l, v, w| av![n(a)]);
c01_call!(c01_t_arity_d, B::Arity, |a, b, c, l, v, w| av![n(a)]);
c01_call!(c01_t_keys_d, B::Keys, |a, b, c, l, v, w| av![n(a)]);
c01_call!(c01_t_values_d, B::Values, |a, b, c, l, v, w| av![n(a)]);
c01_call!(c01_t_entries_d, B::Entries, |a, b, c, l, v, w| av![n(a)]);
c01_call!(c01_t_trim_d, B::Trim, |a, b, c, l, v, w| av![n(a)]);
c01_call!(c01_t_uppercase_d, B::Uppercase, |a, b, c, l, v, w| av![n(a)]);
c01_call!(c01_t_lowercase_d, B::Lowercase, |a, b, c, l, v, w| av![n(a)]);
c01_call!(c01_x_sqrt_s, B::Sqrt, |a, b, c, l, v, w| av![v]);
c01_call!(c01_x_abs_s, B::Abs, |a, b, c, l, v, w| av![v]);
c01_call!(c01_x_floor_s, B::Floor, |a, b, c, l, v, w| av![v]);
c01_call!(c01_x_ceil_s, B::Ceil, |a, b, c, l, v, w| av![v]);
c01_call!(c01_x_trunc_s, B::Trunc, |a, b, c, l, v, w| av![v]);
c01_call!(c01_x_round_s, B::Round, |a, b, c, l, v, w| av![v]);
c01_call!(c01_x_random_s, B::Random, |a, b, c, l, v, w| av![v]);
c01_call!(c01_x_exp_s, B::Exp, |a, b, c, l, v, w| av![v]);
c01_call!(c01_x_log_s, B::Log, |a, b, c, l, v, w| av![v]);
c01_call!(c01_x_sin_s, B::Sin, |a, b, c, l, v, w| av![v]);
c01_call!(c01_x_min_s, B::Min, |a, b, c, l, v, w| av![v]);
c01_call!(c01_x_max_s, B::Max, |a, b, c, l, v, w| av![v]);
c01_call!(c01_x_avg_s, B::Avg, |a, b, c, l, v, w| av![v]);
c01_call!(c01_x_sum_s, B::Sum, |a, b, c, l, v, w| av![v]);
c01_call!(c01_x_prod_s, B::Prod, |a, b, c, l, v, w| av![v]);
c01_call!(c01_x_median_s, B::Median, |a, b, c, l, v, w| av![v]);
c01_call!(c01_x_len_s, B::Len, |a, b, c, l, v, w| av![v]);
c01_call!(c01_x_head_s, B::Head, |a, b, c, l, v, w| av![v]);
c01_call!(c01_x_tail_s, B::Tail, |a, b, c, l, v, w| av![v]);
c01_call!(c01_x_unique_s, B::Unique, |a, b, c, l, v, w| av![v]);
c01_call!(c01_x_sort_s, B::Sort, |a, b, c, l, v, w| av![v]);
c01_call!(c01_x_reverse_s, B::Reverse, |a, b, c, l, v, w| av![v]);
c01_call!(c01_x_any_s, B::Any, |a, b, c, l, v, w| av![v]);
c01_call!(c01_x_all_s, B::All, |a, b, c, l, v, w| av![v]);
c01_call!(c01_x_flatten_s, B::Flatten, |a, b, c, l, v, w| av![v]);
c01_call!(c01_x_tonumber_s, B::ToNumber, |a, b, c, l, v, w| av![v]);
c01_call!(c01_x_tobool_s, B::ToBool, |a, b, c, l, v, w| av![v]);
c01_call!(c01_x_typeof_s, B::Typeof, |a, b, c, l, v, w| av![v]);
c01_call!(c01_x_arity_s, B::Arity, |a, b, c, l, v, w| av![v]);
c01_call!(c01_x_keys_s, B::Keys, |a, b, c, l, v, w| av![v]);
c01_call!(c01_x_values_s, B::Values, |a, b, c, l, v, w| av![v]);
c01_call!(c01_x_entries_s, B::Entries, |a, b, c, l, v, w| av![v]);
c01_call!(c01_x_trim_s, B::Trim, |a, b, c, l, v, w| av![v]);
c01_call!(c01_x_uppercase_s, B::Uppercase, |a, b, c, l, v, w| av![v]);
c01_call!(c01_x_lowercase_s, B::Lowercase, |a, b, c, l, v, w| av![v]);
c01_call!(c01_t_min_l, B::Min, |a, b, c, l, v, w| av![l]);
c01_call!(c01_t_max_l, B::Max, |a, b, c, l, v, w| av![l]);
c01_call!(c01_q_avg_l, B::Avg, |a, b, c, l, v, w| av![l]);
c01_call!(c01_t_sum_l, B::Sum, |a, b, c, l, v, w| av![l]);
c01_call!(c01_t_prod_l, B::Prod, |a, b, c, l, v, w| av![l]);
c01_call!(c01_q_median_l, B::Median, |a, b, c, l, v, w| av![l]);
c01_call!(c01_t_len_l, B::Len, |a, b, c, l, v, w| av![l]);
c01_call!(c01_t_head_l, B::Head, |a, b, c, l, v, w| av![l]);
c01_call!(c01_q_tail_l, B::Tail, |a, b, c, l, v, w| av![l]);
c01_call!(c01_q_unique_l, B::Unique, |a, b, c, l, v, w| av![l]);
c01_call!(c01_q_sort_l, B::Sort, |a, b, c, l, v, w| av![l]);
c01_call!(c01_t_reverse_l, B::Reverse, |a, b, c, l, v, w| av![l]);
c01_call!(c01_t_any_l, B::Any, |a, b, c, l, v, w| av![l]);
c01_call!(c01_t_all_l, B::All, |a, b, c, l, v, w| av![l]);
c01_call!(c01_t_flatten_l, B::Flatten, |a, b, c, l, v, w| av![l]);
c01_call!(c01_t_tonumber_l, B::ToNumber, |a, b, c, l, v, w| av![l]);
c01_call!(c01_t_tobool_l, B::ToBool, |a, b, c, l, v, w| av![l]);
c01_call!(c01_t_typeof_l, B::Typeof, |a, b, c, l, v, w| av![l]);
c01_call!(c01_t_arity_l, B::Arity, |a, b, c, l, v, w| av![l]);
c01_call!(c01_t_keys_l, B::Keys, |a, b, c, l, v, w| av![l]);
c01_call!(c01_t_values_l, B::Values, |a, b, c, l, v, w| av![l]);
c01_call!(c01_t_entries_l, B::Entries, |a, b, c, l, v, w| av![l]);
c01_call!(c01_t_trim_l, B::Trim, |a, b, c, l, v, w| av![l]);
c01_call!(c01_t_uppercase_l, B::Uppercase, |a, b, c, l, v, w| av![l]);
c01_call!(c01_t_lowercase_l, B::Lowercase, |a, b, c, l, v, w| av![l]);
c01_call!(c01_t_sqrt_l, B::Sqrt, |a, b, c, l, v, w| av![l]);
c01_call!(c01_t_abs_l, B::Abs, |a, b, c, l, v, w| av![l]);
c01_call!(c01_t_floor_l, B::Floor, |a, b, c, l, v, w| av![l]);
c01_call!(c01_t_ceil_l, B::Ceil, |a, b, c, l, v, w| av![l]);
c01_call!(c01_t_trunc_l, B::Trunc, |a, b, c, l, v, w| av![l]);
c01_call!(c01_t_round_l, B::Round, |a, b, c, l, v, w| av![l]);
c01_call!(c01_t_random_l, B::Random, |a, b, c, l, v, w| av![l]);
c01_call!(c01_t_exp_l, B::Exp, |a, b, c, l, v, w| av![l]);
c01_call!(c01_t_log_l, B::Log, |a, b, c, l, v, w| av![l]);
c01_call!(c01_t_sin_l, B::Sin, |a, b, c, l, v, w| av![l]);
c01_call!(c01_q_min_dd, B::Min, |a, b, c, l, v, w| av![n(a), n(c)]);
c01_call!(c01_t_max_dd, B::Max, |a, b, c, l, v, w| av![n(a), n(c)]);
c01_call!(c01_t_avg_dd, B::Avg, |a, b, c, l, v, w| av![n(a), n(c)]);
c01_call!(c01_t_sum_dd, B::Sum, |a, b, c, l, v, w| av![n(a), n(c)]);
c01_call!(c01_t_prod_dd, B::Prod, |a, b, c, l, v, w| av![n(a), n(c)]);
c01_call!(c01_q_median_dd, B::Median, |a, b, c, l, v, w| av![n(a), n(c)]);
c01_call!(c01_t_percentile_dd, B::Percentile, |a, b, c, l, v, w| av![n(a), n(c)]);
c01_call!(c01_t_dot_dd, B::Dot, |a, b, c, l, v, w| av![n(a), n(c)]);
c01_call!(c01_t_chunk_dd, B::Chunk, |a, b, c, l, v, w| av![n(a), n(c)]);
c01_call!(c01_q_round_dd, B::Round, |a, b, c, l, v, w| av![n(a), n(c)]);
c01_call!(c01_t_ugt_dd, B::Ugt, |a, b, c, l, v, w| av![n(a), n(c)]);
c01_call!(c01_t_ult_dd, B::Ult, |a, b, c, l, v, w| av![n(a), n(c)]);
c01_call!(c01_t_ugte_dd, B::Ugte, |a, b, c, l, v, w| av![n(a), n(c)]);
c01_call!(c01_t_ulte_dd, B::Ulte, |a, b, c, l, v, w| av![n(a), n(c)]);
c01_call!(c01_t_map_dd, B::Map, |a, b, c, l, v, w| av![n(a), n(c)]);
c01_call!(c01_t_filter_dd, B::Filter, |a, b, c, l, v, w| av![n(a), n(c)]);
c01_call!(c01_t_every_dd, B::Every, |a, b, c, l, v, w| av![n(a), n(c)]);
c01_call!(c01_t_some_dd, B::Some, |a, b, c, l, v, w| av![n(a), n(c)]);
c01_call!(c01_t_sortby_dd, B::SortBy, |a, b, c, l, v, w| av![n(a), n(c)]);
c01_call!(c01_t_groupby_dd, B::GroupBy, |a, b, c, l, v, w| av![n(a), n(c)]);
c01_call!(c01_t_countby_dd, B::CountBy, |a, b, c, l, v, w| av![n(a), n(c)]);
c01_call!(c01_t_join_dd, B::Join, |a, b, c, l, v, w| av![n(a), n(c)]);
c01_call!(c01_t_split_dd, B::Split, |a, b, c, l, v, w| av![n(a), n(c)]);
c01_call!(c01_t_concat_dd, B::Concat, |a, b, c, l, v, w| av![n(a), n(c)]);
c01_call!(c01_t_zip_dd, B::Zip, |a, b, c, l, v, w| av![n(a), n(c)]);
c01_call!(c01_t_includes_dd, B::Includes, |a, b, c, l, v, w| av![n(a), n(c)]);
c01_call!(c01_x_min_ss, B::Min, |a, b, c, l, v, w| av![v, w]);
c01_call!(c01_x_max_ss, B::Max, |a, b, c, l, v, w| av![v, w]);
c01_call!(c01_x_avg_ss, B::Avg, |a, b, c, l, v, w| av![v, w]);
c01_call!(c01_x_sum_ss, B::Sum, |a, b, c, l, v, w| av![v, w]);
c01_call!(c01_x_prod_ss, B::Prod, |a, b, c, l, v, w| av![v, w]);
c01_call!(c01_x_median_ss, B::Median, |a, b, c, l, v, w| av![v, w]);
c01_call!(c01_x_percentile_ss, B::Percentile, |a, b, c, l, v, w| av![v, w]);
c01_call!(c01_x_dot_ss, B::Dot, |a, b, c, l, v, w| av![v, w]);
c01_call!(c01_x_chunk_ss, B::Chunk, |a, b, c, l, v, w| av![v, w]);
c01_call!(c01_x_round_ss, B::Round, |a, b, c, l, v, w| av![v, w]);
c01_call!(c01_x_ugt_ss, B::Ugt, |a, b, c, l, v, w| av![v, w]);
c01_call!(c01_x_ult_ss, B::Ult, |a, b, c, l, v, w| av![v, w]);
c01_call!(c01_x_ugte_ss, B::Ugte, |a, b, c, l, v, w| av![v, w]);
c01_call!(c01_x_ulte_ss, B::Ulte, |a, b, c, l, v, w| av![v, w]);
c01_call!(c01_x_map_ss, B::Map, |a, b, c, l, v, w| av![v, w]);
c01_call!(c01_x_filter_ss, B::Filter, |a, b, c, l, v, w| av![v, w]);
c01_call!(c01_x_every_ss, B::Every, |a, b, c, l, v, w| av![v, w]);
c01_call!(c01_x_some_ss, B::Some, |a, b, c, l, v, w| av![v, w]);
c01_call!(c01_x_sortby_ss, B::SortBy, |a, b, c, l, v, w| av![v, w]);
c01_call!(c01_x_groupby_ss, B::GroupBy, |a, b, c, l, v, w| av![v, w]);
c01_call!(c01_x_countby_ss, B::CountBy, |a, b, c, l, v, w| av![v, w]);
c01_call!(c01_x_join_ss, B::Join, |a, b, c, l, v, w| av![v, w]);
c01_call!(c01_x_split_ss, B::Split, |a, b, c, l, v, w| av![v, w]);
c01_call!(c01_x_concat_ss, B::Concat, |a, b, c, l, v, w| av![v, w]);
c01_call!(c01_x_zip_ss, B::Zip, |a, b, c, l, v, w| av![v, w]);
c01_call!(c01_x_includes_ss, B::Includes, |a, b, c, l, v, w| av![v, w]);
c01_call!(c01_q_percentile_ld, B::Percentile, |a, b, c, l, v, w| av![l, n(c)]);
c01_call!(c01_t_dot_ld, B::Dot, |a, b, c, l, v, w| av![l, n(c)]);
c01_call!(c01_t_round_ld, B::Round, |a, b, c, l, v, w| av![l, n(c)]);
c01_call!(c01_t_ugt_ld, B::Ugt, |a, b, c, l, v, w| av![l, n(c)]);
c01_call!(c01_t_ult_ld, B::Ult, |a, b, c, l, v, w| av![l, n(c)]);
c01_call!(c01_t_ugte_ld, B::Ugte, |a, b, c, l, v, w| av![l, n(c)]);
c01_call!(c01_t_ulte_ld, B::Ulte, |a, b, c, l, v, w| av![l, n(c)]);
c01_call!(c01_t_map_ld, B::Map, |a, b, c, l, v, w| av![l, n(c)]);
c01_call!(c01_t_filter_ld, B::Filter, |a, b, c, l, v, w| av![l, n(c)]);
c01_call!(c01_t_every_ld, B::Every, |a, b, c, l, v, w| av![l, n(c)]);
c01_call!(c01_t_some_ld, B::Some, |a, b, c, l, v, w| av![l, n(c)]);
c01_call!(c01_t_sortby_ld, B::SortBy, |a, b, c, l, v, w| av![l, n(c)]);
c01_call!(c01_t_groupby_ld, B::GroupBy, |a, b, c, l, v, w| av![l, n(c)]);
c01_call!(c01_t_countby_ld, B::CountBy, |a, b, c, l, v, w| av![l, n(c)]);
c01_call!(c01_t_join_ld, B::Join, |a, b, c, l, v, w| av![l, n(c)]);
c01_call!(c01_t_split_ld, B::Split, |a, b, c, l, v, w| av![l, n(c)]);
c01_call!(c01_t_concat_ld, B::Concat, |a, b, c, l, v, w| av![l, n(c)]);
c01_call!(c01_t_zip_ld, B::Zip, |a, b, c, l, v, w| av![l, n(c)]);
c01_call!(c01_x_includes_ld, B::Includes, |a, b, c, l, v, w| av![l, n(c)]);
c01_call!(c01_t_percentile_ll, B::Percentile, |a, b, c, l, v, w| av![l, l]);
c01_call!(c01_q_dot_ll, B::Dot, |a, b, c, l, v, w| av![l, l]);
c01_call!(c01_t_chunk_ll, B::Chunk, |a, b, c, l, v, w| av![l, l]);
c01_call!(c01_t_round_ll, B::Round, |a, b, c, l, v, w| av![l, l]);
c01_call!(c01_t_ugt_ll, B::Ugt, |a, b, c, l, v, w| av![l, l]);
c01_call!(c01_t_ult_ll, B::Ult, |a, b, c, l, v, w| av![l, l]);
c01_call!(c01_t_ugte_ll, B::Ugte, |a, b, c, l, v, w| av![l, l]);
c01_call!(c01_t_ulte_ll, B::Ulte, |a, b, c, l, v, w| av![l, l]);
c01_call!(c01_t_map_ll, B::Map, |a, b, c, l, v, w| av![l, l]);
c01_call!(c01_t_filter_ll, B::Filter, |a, b, c, l, v, w| av![l, l]);
c01_call!(c01_t_every_ll, B::Every, |a, b, c, l, v, w| av![l, l]);
c01_call!(c01_t_some_ll, B::Some, |a, b, c, l, v, w| av![l, l]);
c01_call!(c01_t_sortby_ll, B::SortBy, |a, b, c, l, v, w| av![l, l]);
c01_call!(c01_t_groupby_ll, B::GroupBy, |a, b, c, l, v, w| av![l, l]);
c01_call!(c01_t_countby_ll, B::CountBy, |a, b, c, l, v, w| av![l, l]);
c01_call!(c01_t_join_ll, B::Join, |a, b, c, l, v, w| av![l, l]);
c01_call!(c01_t_split_ll, B::Split, |a, b, c, l, v, w| av![l, l]);
c01_call!(c01_q_concat_ll, B::Concat, |a, b, c, l, v, w| av![l, l]);
c01_call!(c01_q_zip_ll, B::Zip, |a, b, c, l, v, w| av![l, l]);
c01_call!(c01_x_includes_ll, B::Includes, |a, b, c, l, v, w| av![l, l]);
c01_call!(c01_q_slice_ldd, B::Slice, |a, b, c, l, v, w| av![l, n(a), n(c)]);
c01_call!(c01_t_replace_ldd, B::Replace, |a, b, c, l, v, w| av![l, n(a), n(c)]);
c01_call!(c01_t_reduce_ldd, B::Reduce, |a, b, c, l, v, w| av![l, n(a), n(c)]);
c01_call!(c01_x_slice_sss, B::Slice, |a, b, c, l, v, w| av![v, w, v]);
c01_call!(c01_x_replace_sss, B::Replace, |a, b, c, l, v, w| av![v, w, v]);
c01_call!(c01_x_reduce_sss, B::Reduce, |a, b, c, l, v, w| av![v, w, v]);

// empty lists: the aggregates and percentile (the other built-ins on [] are exercised by C14 / C15)
// chunk: the size is a divisor inside slice::chunks; a free 64-bit divisor defeats the solver, so
// the size is one of a few interesting constants, chosen symbolically (one call per path)
kproof!(cut, 6, fn c01_q_chunk_sizes() {
    let (a, b): (f64, f64) = (kani::any(), kani::any());
    let l = arena::list_cell(vec![n(a), n(b)]);
    let heap = arena::heap();
    let k: u8 = kani::any();
    kani::cover!(k == 1, "reach the fractional size");
    let _ = if k == 0 {
        call_bi(B::Chunk, av![l, n(0.0)], &heap)
    } else if k == 1 {
        call_bi(B::Chunk, av![l, n(0.5)], &heap)
    } else if k == 2 {
        call_bi(B::Chunk, av![l, n(f64::NAN)], &heap)
    } else if k == 3 {
        call_bi(B::Chunk, av![l, n(-3.0)], &heap)
    } else if k == 4 {
        call_bi(B::Chunk, av![l, n(1.0)], &heap)
    } else if k == 5 {
        call_bi(B::Chunk, av![l, n(2.5)], &heap)
    } else if k == 6 {
        call_bi(B::Chunk, av![l, n(1e301)], &heap)
    } else {
        call_bi(B::Chunk, av![l, n(f64::INFINITY)], &heap)
    };
    std::mem::forget(heap);
});

macro_rules! c01_empty {
    ($name:ident, $f:expr) => {
        kproof!(cut, 6, fn $name() {
            let e = arena::list_cell(vec![]);
            let heap = arena::heap();
            kani::cover!(true, "reach-call");
            let _ = call_bi($f, av![e], &heap);
            std::mem::forget(heap);
        });
    };
}
c01_empty!(c01_q_median_empty_list, B::Median);
c01_empty!(c01_t_min_empty_list, B::Min);
c01_empty!(c01_t_avg_empty_list, B::Avg);
c01_empty!(c01_t_sum_empty_list, B::Sum);
kproof!(cut, 6, fn c01_q_percentile_empty_list() {
    let p: f64 = kani::any();
    let e = arena::list_cell(vec![]);
    let heap = arena::heap();
    kani::cover!(p == 50.0, "reach percentile([], 50)");
    let _ = call_bi(B::Percentile, av![e, n(p)], &heap);
    std::mem::forget(heap);
});

// ---- range: guards for every pair of doubles (list construction itself bounded away) --------
kproof!(cut, 6, fn c01_q_range_guards_any_doubles() {
    let (a, b): (f64, f64) = (kani::any(), kani::any());
    // the list-building loop is proportional to b - a: pairs that would build 2 .. 2^32 elements
    // are assumed away, every other pair (incl. +-1e19, inf, NaN) is executed
    let len = (b as i64) as i128 - (a as i64) as i128; // saturating casts, like the implementation
    kani::assume(!(a.is_finite() && b.is_finite() && len > 1 && len <= u32::MAX as i128));
    let heap = arena::heap();
    kani::cover!(a < -1e19 && b > 1e19, "reach beyond i64");
    let _ = call_bi(B::Range, av![n(a), n(b)], &heap);
    std::mem::forget(heap);
});
kproof!(cut, 6, fn c01_q_range1_guards_any_double() {
    let b: f64 = kani::any();
    let len = (b as i64) as i128;
    kani::assume(!(b.is_finite() && len > 1 && len <= u32::MAX as i128));
    let heap = arena::heap();
    kani::cover!(b > 1e19, "reach beyond i64");
    let _ = call_bi(B::Range, av![n(b)], &heap);
    std::mem::forget(heap);
});

// ---- evaluator arms on scalars ---------------------------------------------------------------
kproof!(cut_nocall, 9, fn c01_q_factorial_total() {
    let a: f64 = kani::any();
    // factorial's product loop runs n times: executed for n <= 6, for every non-integer / negative
    // double, and for n > 170 (which must not enter the loop: 171! is already infinite)
    kani::assume(!(a > 6.5 && a <= 170.0));
    let heap = arena::heap();
    let e = sp(Expr::PostfixOp { op: PostfixOp::Factorial, expr: arena::bx(num(a)) });
    kani::cover!(a == 6.0, "reach 6!");
    let _ = evaluate_ast(&e, heap.clone(), arena::env(), 0, src());
    std::mem::forget(e);
    std::mem::forget(heap);
});
// factorial of doubles at and beyond the u64 range: the product loop is not entered for them (the
// iterator is empty or the argument is rejected), so every such double is executed
kproof!(cut_nocall, 4, fn c01_q_factorial_beyond_u64() {
    let a: f64 = kani::any();
    kani::assume(a >= 18446744073709551616.0 || a.is_nan());
    let heap = arena::heap();
    let e = sp(Expr::PostfixOp { op: PostfixOp::Factorial, expr: arena::bx(num(a)) });
    kani::cover!(a == 18446744073709551616.0, "reach 2^64");
    kani::cover!(a == f64::INFINITY, "reach infinity");
    let _ = evaluate_ast(&e, heap.clone(), arena::env(), 0, src());
    std::mem::forget(e);
    std::mem::forget(heap);
});

macro_rules! c01_unary {
    ($name:ident, $mk:expr) => {
        kproof!(cut_nocall, 4, fn $name() {
            let a: f64 = kani::any();
            let t: bool = kani::any();
            let heap = arena::heap();
            let mk: fn(f64, bool) -> Expr = $mk;
            let e = sp(mk(a, t));
            kani::cover!(a.is_nan(), "reach NaN");
            let _ = evaluate_ast(&e, heap.clone(), arena::env(), 0, src());
            std::mem::forget(e);
            std::mem::forget(heap);
        });
    };
}
c01_unary!(c01_q_negate_number, |a, _t| Expr::UnaryOp { op: UnaryOp::Negate, expr: arena::bx(num(a)) });
c01_unary!(c01_t_negate_bool, |_a, t| Expr::UnaryOp { op: UnaryOp::Negate, expr: arena::bx(Expr::Bool(t)) });
c01_unary!(c01_t_not_bool, |_a, t| Expr::UnaryOp { op: UnaryOp::Not, expr: arena::bx(Expr::Bool(t)) });
c01_unary!(c01_t_invert_number, |a, _t| Expr::UnaryOp { op: UnaryOp::Invert, expr: arena::bx(num(a)) });
c01_unary!(c01_t_spread_number, |a, _t| Expr::Spread(arena::bx(num(a))));
c01_unary!(c01_t_spread_null, |_a, _t| Expr::Spread(arena::bx(Expr::Null)));

// ---- the list built-ins on the empty list ----------------------------------------------------
macro_rules! c01_empty_args {
    ($name:ident, $f:expr, |$e:ident, $d:ident| $args:expr) => {
        kproof!(cut, 6, fn $name() {
            let $d: f64 = kani::any();
            kani::assume($d.is_nan() || $d < 4.0 || $d > 1e300);
            let $e = arena::list_cell(vec![]);
            let heap = arena::heap();
            kani::cover!(true, "reach-call");
            let _ = call_bi($f, $args, &heap);
            std::mem::forget(heap);
        });
    };
}
c01_empty_args!(c01_t_len_empty, B::Len, |e, d| av![e]);
c01_empty_args!(c01_q_head_empty, B::Head, |e, d| av![e]);
c01_empty_args!(c01_q_tail_empty, B::Tail, |e, d| av![e]);
c01_empty_args!(c01_t_unique_empty, B::Unique, |e, d| av![e]);
c01_empty_args!(c01_t_sort_empty, B::Sort, |e, d| av![e]);
c01_empty_args!(c01_t_reverse_empty, B::Reverse, |e, d| av![e]);
c01_empty_args!(c01_t_any_empty, B::Any, |e, d| av![e]);
c01_empty_args!(c01_t_all_empty, B::All, |e, d| av![e]);
c01_empty_args!(c01_t_flatten_empty, B::Flatten, |e, d| av![e]);
c01_empty_args!(c01_x_includes_empty, B::Includes, |e, d| av![e, n(d)]);
c01_empty_args!(c01_t_slice_empty, B::Slice, |e, d| av![e, n(d), n(d)]);
c01_empty_args!(c01_t_concat_empty, B::Concat, |e, d| av![e, e]);
c01_empty_args!(c01_t_zip_empty, B::Zip, |e, d| av![e, e]);
c01_empty_args!(c01_t_dot_empty, B::Dot, |e, d| av![e, e]);
c01_empty_args!(c01_t_max_empty, B::Max, |e, d| av![e]);
c01_empty_args!(c01_t_prod_empty, B::Prod, |e, d| av![e]);
