//! C01 (evaluator / built-in stage): no input makes a built-in or an evaluator arm panic,
//! overflow or index out of range.  Oracle = Kani's own checks on the code of /repo
//! (panics, unwrap/expect, slice indexing, arithmetic overflow, unreachable!).
//!
//! All harnesses are `cut` harnesses with ONE call under test: building a type-error value ends
//! the path (what follows is `?` propagation).  The built-in is a *symbolic* choice among all
//! built-ins that accept the argument count, so every arm of BuiltInFunction::call is entered
//! with every argument shape below.
use crate::av;
use crate::c14::call_bi;
use crate::kproof;
use crate::util::*;
use blots_core::ast::*;
use blots_core::expressions::evaluate_ast;
use blots_core::functions::BuiltInFunction as B;
use blots_core::values::*;

fn n(x: f64) -> Value {
    Value::Number(x)
}
pub const BUILTINS: [B; 63] = [
    B::Sqrt, B::Sin, B::Cos, B::Tan, B::Asin, B::Acos, B::Atan, B::Log, B::Log10, B::Exp, B::Abs, B::Floor, B::Ceil, B::Round, B::Trunc, B::Random,
    B::Min, B::Max, B::Avg, B::Sum, B::Prod, B::Median, B::Percentile,
    B::Len, B::Head, B::Tail, B::Slice, B::Concat, B::Dot, B::Unique, B::Sort, B::SortBy, B::Reverse, B::Any, B::All,
    B::Map, B::Reduce, B::Filter, B::Every, B::Some,
    B::Split, B::Join, B::Replace, B::Trim, B::Uppercase, B::Lowercase, B::Includes,
    B::Typeof, B::Arity, B::Keys, B::Values, B::Entries,
    B::GroupBy, B::CountBy, B::Flatten, B::Zip, B::Chunk,
    B::ToNumber, B::ToBool, B::Ugt, B::Ult, B::Ugte, B::Ulte,
];
// not in the table (stated as outside): Range (own harnesses: its loop is proportional to the
// argument), ToString / Format / Print (float -> text), Convert (unit table scan over Unicode
// lower-casing), TimeNow (clock FFI)

#[cfg(kani)]
fn any_builtin_accepting(nargs: usize) -> B {
    let i: usize = kani::any();
    kani::assume(i < 63);
    let f = BUILTINS[i];
    kani::assume(f.arity().can_accept(nargs));
    f
}
#[cfg(kani)]
fn any_scalar() -> Value {
    let k: u8 = kani::any();
    if k == 0 { Value::Number(kani::any()) } else if k == 1 { Value::Bool(kani::any()) } else { Value::Null }
}

// ---- every built-in x argument shape --------------------------------------------------------
kproof!(cut, 6, fn c01_q_any_builtin_one_scalar() {
    let v = any_scalar();
    let f = any_builtin_accepting(1);
    let heap = arena::heap();
    kani::cover!(matches!(f, B::Median), "reach median");
    let _ = call_bi(f, av![v], &heap);
    std::mem::forget(heap);
});
kproof!(cut, 6, fn c01_q_any_builtin_two_scalars() {
    let (v, w) = (any_scalar(), any_scalar());
    let f = any_builtin_accepting(2);
    let heap = arena::heap();
    kani::cover!(matches!(f, B::Median), "reach median");
    let _ = call_bi(f, av![v, w], &heap);
    std::mem::forget(heap);
});
kproof!(cut, 6, fn c01_t_any_builtin_three_scalars() {
    let (v, w, x) = (any_scalar(), any_scalar(), any_scalar());
    let f = any_builtin_accepting(3);
    let heap = arena::heap();
    kani::cover!(matches!(f, B::Slice), "reach slice");
    let _ = call_bi(f, av![v, w, x], &heap);
    std::mem::forget(heap);
});
kproof!(cut, 7, fn c01_q_any_builtin_one_list() {
    let (a, b): (f64, f64) = (kani::any(), kani::any());
    let l = arena::list_cell(vec![n(a), n(b)]);
    let f = any_builtin_accepting(1);
    let heap = arena::heap();
    kani::cover!(matches!(f, B::Median) && a.is_nan(), "reach median of a NaN");
    let _ = call_bi(f, av![l], &heap);
    std::mem::forget(heap);
});
kproof!(cut, 6, fn c01_q_any_builtin_empty_list() {
    let l = arena::list_cell(vec![]);
    let f = any_builtin_accepting(1);
    let heap = arena::heap();
    kani::cover!(matches!(f, B::Median), "reach median");
    let _ = call_bi(f, av![l], &heap);
    std::mem::forget(heap);
});
kproof!(cut, 7, fn c01_q_any_builtin_list_and_double() {
    let (a, b, p): (f64, f64, f64) = (kani::any(), kani::any(), kani::any());
    let l = arena::list_cell(vec![n(a), n(b)]);
    let f = any_builtin_accepting(2);
    let heap = arena::heap();
    kani::cover!(matches!(f, B::Percentile) && a.is_nan(), "reach percentile of a NaN");
    kani::cover!(matches!(f, B::Chunk) && p > 1e300, "reach a huge chunk size");
    let _ = call_bi(f, av![l, n(p)], &heap);
    std::mem::forget(heap);
});
kproof!(cut, 6, fn c01_q_any_builtin_empty_list_and_double() {
    let p: f64 = kani::any();
    let l = arena::list_cell(vec![]);
    let f = any_builtin_accepting(2);
    let heap = arena::heap();
    kani::cover!(matches!(f, B::Percentile), "reach percentile of []");
    let _ = call_bi(f, av![l, n(p)], &heap);
    std::mem::forget(heap);
});
kproof!(cut, 7, fn c01_t_any_builtin_list_double_double() {
    let (a, b, s, t): (f64, f64, f64, f64) = (kani::any(), kani::any(), kani::any(), kani::any());
    let l = arena::list_cell(vec![n(a), n(b)]);
    let f = any_builtin_accepting(3);
    let heap = arena::heap();
    kani::cover!(matches!(f, B::Slice) && s.is_nan(), "reach slice with a NaN bound");
    let _ = call_bi(f, av![l, n(s), n(t)], &heap);
    std::mem::forget(heap);
});
kproof!(cut, 7, fn c01_t_any_builtin_two_lists() {
    let (a, b, c): (f64, f64, f64) = (kani::any(), kani::any(), kani::any());
    let l = arena::list_cell(vec![n(a), n(b)]);
    let m = arena::list_cell(vec![n(c)]);
    let f = any_builtin_accepting(2);
    let heap = arena::heap();
    kani::cover!(matches!(f, B::Dot), "reach dot");
    let _ = call_bi(f, av![l, m], &heap);
    std::mem::forget(heap);
});

// ---- range: guards for every pair of doubles (list construction itself bounded away) --------
kproof!(cut, 4, fn c01_q_range_guards_any_doubles() {
    let (a, b): (f64, f64) = (kani::any(), kani::any());
    // the list-building loop is proportional to b - a: pairs that would build 2 .. 2^32 elements
    // are assumed away, every other pair (incl. +-1e19, inf, NaN) is executed
    kani::assume(!(a.is_finite() && b.is_finite() && b - a > 1.5 && b - a <= 4294967300.0));
    let heap = arena::heap();
    kani::cover!(a < -1e19 && b > 1e19, "reach beyond i64");
    let _ = call_bi(B::Range, av![n(a), n(b)], &heap);
    std::mem::forget(heap);
});
kproof!(cut, 4, fn c01_q_range1_guards_any_double() {
    let b: f64 = kani::any();
    kani::assume(!(b.is_finite() && b > 1.5 && b <= 4294967300.0));
    let heap = arena::heap();
    kani::cover!(b > 1e19, "reach beyond i64");
    let _ = call_bi(B::Range, av![n(b)], &heap);
    std::mem::forget(heap);
});

// ---- evaluator arms on scalars ---------------------------------------------------------------
kproof!(cut_nocall, 9, fn c01_q_factorial_total() {
    let a: f64 = kani::any();
    // factorial's product loop runs n times: executed for n <= 6 (and every non-integer / negative)
    kani::assume(!(a > 6.5));
    let heap = arena::heap();
    let e = sp(Expr::PostfixOp { op: PostfixOp::Factorial, expr: arena::bx(num(a)) });
    kani::cover!(a == 6.0, "reach 6!");
    let _ = evaluate_ast(&e, heap.clone(), arena::env(), 0, src());
    std::mem::forget(e);
    std::mem::forget(heap);
});
kproof!(cut_nocall, 4, fn c01_q_unary_and_spread_total() {
    let v: u8 = kani::any();
    let leaf = if v == 0 { Expr::Number(kani::any()) } else if v == 1 { Expr::Bool(kani::any()) } else { Expr::Null };
    let k: u8 = kani::any();
    let heap = arena::heap();
    let e = if k == 0 {
        sp(Expr::UnaryOp { op: UnaryOp::Negate, expr: arena::bx(leaf) })
    } else if k == 1 {
        sp(Expr::UnaryOp { op: UnaryOp::Not, expr: arena::bx(leaf) })
    } else if k == 2 {
        sp(Expr::UnaryOp { op: UnaryOp::Invert, expr: arena::bx(leaf) })
    } else {
        sp(Expr::Spread(arena::bx(leaf)))
    };
    kani::cover!(k == 0 && v == 0, "reach negate number");
    let _ = evaluate_ast(&e, heap.clone(), arena::env(), 0, src());
    std::mem::forget(e);
    std::mem::forget(heap);
});
