//! C13 (built-in callees): via / where / into agree with map / filter / application, callbacks
//! receive (element, index) in list order, and both forms fail alike.
use crate::kproof;
use crate::util::*;
use blots_core::ast::*;
use blots_core::expressions::evaluate_ast;
use blots_core::functions::BuiltInFunction as B;
use blots_core::values::*;

macro_rules! kproof_calls {
    ($mode_msg:path, $mode_fe:path, $unwind:literal, fn $name:ident() $body:block) => {
        #[cfg(kani)]
        #[kani::proof]
        #[kani::unwind($unwind)]
        #[kani::stub(std::hash::RandomState::new, crate::util::stub_random_state_new)]
        #[kani::stub(alloc::alloc::dealloc, crate::util::stub_dealloc)]
        #[kani::stub(alloc::alloc::dealloc_nonnull, crate::util::stub_dealloc_nonnull)]
        #[kani::stub(alloc::alloc::realloc, crate::util::stub_realloc)]
        #[kani::stub(alloc::alloc::realloc_nonnull, crate::util::stub_realloc_nonnull)]
        #[kani::stub(std::backtrace::Backtrace::capture, crate::util::stub_backtrace_capture)]
        #[kani::stub(alloc::fmt::format, crate::util::stub_format)]
        #[kani::stub(blots_core::values::Value::stringify, crate::util::stub_stringify)]
        #[kani::stub(blots_core::units::convert, crate::util::stub_units_convert)]
        #[kani::stub(::anyhow::Error::msg, $mode_msg)]
        #[kani::stub(::anyhow::__private::format_err, $mode_fe)]
        #[kani::stub(std::time::Instant::now, crate::util::stub_instant_now)]
        #[kani::stub(std::sync::Mutex::lock, crate::util::stub_mutex_lock)]
        pub fn $name() $body
    };
}

/// `map(l, f)` / `filter(l, f)` exactly as the evaluator's Call arm invokes them: FunctionDef::call on
/// the higher-order built-in, with the function value as an argument
fn map_like(hof: B, l: Value, f: B, heap: &std::rc::Rc<std::cell::RefCell<blots_core::heap::Heap>>) -> Result<Value, blots_core::error::RuntimeError> {
    blots_core::functions::FunctionDef::BuiltIn(hof).call(Value::BuiltIn(hof), crate::av![l, Value::BuiltIn(f)], heap.clone(), arena::env(), 0, "")
}

fn lists_same(a: Value, b: Value, heap: &std::rc::Rc<std::cell::RefCell<blots_core::heap::Heap>>) -> bool {
    match (read_list(a, heap), read_list(b, heap)) {
        (Some((n, x)), Some((m, y))) => n == m && (n < 1 || same_value(x[0], y[0])) && (n < 2 || same_value(x[1], y[1])) && (n < 3 || same_value(x[2], y[2])),
        _ => false,
    }
}

/// `[a, b] via f`  ==  `map([a, b], f)` for a one-argument built-in
macro_rules! c13_via_map {
    ($name:ident, $f:expr, $want:expr) => {
        kproof_calls!(crate::util::stub_anyhow_msg_panic, crate::util::stub_anyhow_format_err_panic, 5, fn $name() {
            let (a, b): (f64, f64) = (kani::any(), kani::any());
            let l = arena::list_cell(vec![Value::Number(a), Value::Number(b)]);
            let heap = arena::heap();
            let e1 = arena::binop(BinaryOp::Via, arena::list2(num(a), num(b)), Expr::BuiltIn($f));
            let r1 = evaluate_ast(&e1, heap.clone(), arena::env(), 0, src());
            // map(list, f) as the call `map(l, f)` reaches it: FunctionDef::call on the built-in map
            let r2 = map_like(B::Map, l, $f, &heap);
            match (r1, r2) {
                (Ok(v1), Ok(v2)) => {
                    assert!(lists_same(v1, v2, &heap));
                    let want: fn(f64, f64) -> (Value, Value) = $want;
                    let (w0, w1) = want(a, b);
                    match read_list(v1, &heap) {
                        Some((2, el)) => assert!(same_value(el[0], w0) && same_value(el[1], w1)),
                        _ => panic!("via: wrong shape"),
                    }
                }
                _ => panic!("via / map failed on numbers"),
            }
            kani::cover!(true, "reach-end");
            std::mem::forget(e1);
            std::mem::forget(heap);
        });
    };
}
c13_via_map!(c13_q_via_map_abs, B::Abs, |a, b| (Value::Number(a.abs()), Value::Number(b.abs())));
// a built-in that accepts a second argument receives the 0-based index: min(x, i)
c13_via_map!(c13_q_via_map_min_gets_index, B::Min, |a, b| (Value::Number(f64::INFINITY.min(a).min(0.0)), Value::Number(f64::INFINITY.min(b).min(1.0))));
c13_via_map!(c13_t_via_map_floor, B::Floor, |a, b| (Value::Number(a.floor()), Value::Number(b.floor())));

/// `x into f` == `f(x)`
kproof_calls!(crate::util::stub_anyhow_msg_panic, crate::util::stub_anyhow_format_err_panic, 5, fn c13_q_into_is_application() {
    let a: f64 = kani::any();
    let heap = arena::heap();
    let e1 = arena::binop(BinaryOp::Into, num(a), Expr::BuiltIn(B::Abs));
    let e2 = arena::call(Expr::BuiltIn(B::Abs), arena::args1(num(a)));
    match (evaluate_ast(&e1, heap.clone(), arena::env(), 0, src()), evaluate_ast(&e2, heap.clone(), arena::env(), 0, src())) {
        (Ok(v1), Ok(v2)) => assert!(same_value(v1, v2) && same_value(v1, Value::Number(a.abs()))),
        _ => panic!("into / call failed"),
    }
    // a list on the left is passed whole: [a, a] into len == 2
    let e3 = arena::binop(BinaryOp::Into, arena::list2(num(a), num(a)), Expr::BuiltIn(B::Len));
    match evaluate_ast(&e3, heap.clone(), arena::env(), 0, src()) {
        Ok(v) => assert!(same_value(v, Value::Number(2.0))),
        Err(_) => panic!("list into len failed"),
    }
    kani::cover!(true, "reach-end");
    std::mem::forget((e1, e2, e3));
    std::mem::forget(heap);
});

/// `[p, q] where to_bool` == `filter([p, q], to_bool)` (elements kept in order)
kproof_calls!(crate::util::stub_anyhow_msg_panic, crate::util::stub_anyhow_format_err_panic, 5, fn c13_q_where_filter_to_bool() {
    let (p, q): (bool, bool) = (kani::any(), kani::any());
    let l = arena::list_cell(vec![Value::Bool(p), Value::Bool(q)]);
    let heap = arena::heap();
    let e1 = arena::binop(BinaryOp::Where, arena::list2(Expr::Bool(p), Expr::Bool(q)), Expr::BuiltIn(B::ToBool));
    match (evaluate_ast(&e1, heap.clone(), arena::env(), 0, src()), map_like(B::Filter, l, B::ToBool, &heap)) {
        (Ok(v1), Ok(v2)) => {
            assert!(lists_same(v1, v2, &heap));
            match read_list(v1, &heap) {
                Some((n, el)) => {
                    assert!(n == p as usize + q as usize);
                    if n > 0 { assert!(same_value(el[0], Value::Bool(true))); }
                }
                None => panic!("where: not a list"),
            }
        }
        _ => panic!("where / filter failed on booleans"),
    }
    kani::cover!(p && !q, "reach a mixed list");
    std::mem::forget(e1);
    std::mem::forget(heap);
});

/// both forms fail alike: a callee that errs on an element (abs of a boolean)
kproof_calls!(crate::util::stub_anyhow_msg_cut, crate::util::stub_anyhow_format_err_cut, 5, fn c13_q_via_map_fail_alike() {
    let a: f64 = kani::any();
    let t: bool = kani::any();
    kani::cover!(true, "reach-call");
    let l = arena::list_cell(vec![Value::Number(a), Value::Bool(t)]);
    let heap = arena::heap();
    let k: bool = kani::any();
    // one of the two equivalent forms per path (a type error ends a `cut` path)
    if k {
        let e1 = arena::binop(BinaryOp::Via, arena::list2(num(a), Expr::Bool(t)), Expr::BuiltIn(B::Abs));
        assert!(evaluate_ast(&e1, heap.clone(), arena::env(), 0, src()).is_err());
        std::mem::forget(e1);
    } else {
        assert!(map_like(B::Map, l, B::Abs, &heap).is_err());
    }
    std::mem::forget(heap);
});

/// a predicate that returns a non-boolean makes *both* `where` and `filter` fail
kproof_calls!(crate::util::stub_anyhow_msg_cut, crate::util::stub_anyhow_format_err_cut, 5, fn c13_q_where_filter_fail_alike_nonbool() {
    let (a, b): (f64, f64) = (kani::any(), kani::any());
    kani::cover!(true, "reach-call");
    let l = arena::list_cell(vec![Value::Number(a), Value::Number(b)]);
    let heap = arena::heap();
    let k: bool = kani::any();
    if k {
        let e1 = arena::binop(BinaryOp::Where, arena::list2(num(a), num(b)), Expr::BuiltIn(B::Abs));
        assert!(evaluate_ast(&e1, heap.clone(), arena::env(), 0, src()).is_err());
        std::mem::forget(e1);
    } else {
        assert!(map_like(B::Filter, l, B::Abs, &heap).is_err());
    }
    std::mem::forget(heap);
});

/// the empty list is passed whole too: `[] into len` == len([]) == 0; `[] via abs` == map([], abs) == []
kproof_calls!(crate::util::stub_anyhow_msg_panic, crate::util::stub_anyhow_format_err_panic, 5, fn c13_q_empty_list_into_via() {
    let el = arena::list_cell(vec![]);
    let heap = arena::heap();
    let e1 = arena::binop(BinaryOp::Into, arena::list0(), Expr::BuiltIn(B::Len));
    let e2 = arena::call(Expr::BuiltIn(B::Len), arena::args1(arena::list0()));
    match (evaluate_ast(&e1, heap.clone(), arena::env(), 0, src()), evaluate_ast(&e2, heap.clone(), arena::env(), 0, src())) {
        (Ok(v1), Ok(v2)) => assert!(same_value(v1, v2) && same_value(v1, Value::Number(0.0))),
        _ => panic!("[] into len failed"),
    }
    let e3 = arena::binop(BinaryOp::Via, arena::list0(), Expr::BuiltIn(B::Abs));
    match (evaluate_ast(&e3, heap.clone(), arena::env(), 0, src()), map_like(B::Map, el, B::Abs, &heap)) {
        (Ok(v1), Ok(v2)) => assert!(matches!(read_list(v1, &heap), Some((0, _))) && matches!(read_list(v2, &heap), Some((0, _)))),
        _ => panic!("[] via abs failed"),
    }
    kani::cover!(true, "reach-end");
    std::mem::forget((e1, e2, e3));
    std::mem::forget(heap);
});
