//! C13 (built-in callees): via / where / into agree with map / filter / application, callbacks
//! receive (element, index) in list order, and both forms fail alike.
use crate::kproof;
use crate::util::*;
use blots_core::ast::*;
use blots_core::expressions::evaluate_ast;
use blots_core::functions::BuiltInFunction as B;
use blots_core::values::*;

macro_rules! kproof_calls {
    ($mode_msg:path, $mode_fe:path, $unwind:literal, fn $name:ident() $body:block) => {
        #[cfg(kani)]
        #[kani::proof]
        #[kani::unwind($unwind)]
        #[kani::stub(std::hash::RandomState::new, crate::util::stub_random_state_new)]
        #[kani::stub(alloc::alloc::dealloc, crate::util::stub_dealloc)]
        #[kani::stub(alloc::alloc::dealloc_nonnull, crate::util::stub_dealloc_nonnull)]
        #[kani::stub(alloc::alloc::realloc, crate::util::stub_realloc)]
        #[kani::stub(alloc::alloc::realloc_nonnull, crate::util::stub_realloc_nonnull)]
        #[kani::stub(std::backtrace::Backtrace::capture, crate::util::stub_backtrace_capture)]
        #[kani::stub(alloc::fmt::format, crate::util::stub_format)]
        #[kani::stub(blots_core::values::Value::stringify, crate::util::stub_stringify)]
        #[kani::stub(blots_core::units::convert, crate::util::stub_units_convert)]
        #[kani::stub(::anyhow::Error::msg, $mode_msg)]
        #[kani::stub(::anyhow::__private::format_err, $mode_fe)]
        #[kani::stub(std::time::Instant::now, crate::util::stub_instant_now)]
        #[kani::stub(std::sync::Mutex::lock, crate::util::stub_mutex_lock)]
        #[kani::stub(blots_core::functions::FunctionDef::call, crate::util::stub_function_def_call_small_builtins)]
        pub fn $name() $body
    };
}

/// `map(l, f)` / `filter(l, f)`: the higher-order built-in's own implementation
/// (`BuiltInFunction::call` on a constant selector), with the function value as an argument; its
/// callbacks go through `FunctionDef::call`, i.e. through the family's stub
fn map_like(hof: B, l: Value, f: B, heap: &std::rc::Rc<std::cell::RefCell<blots_core::heap::Heap>>) -> Result<Value, blots_core::error::RuntimeError> {
    hof.call(crate::av![l, Value::BuiltIn(f)], heap.clone(), arena::env(), 0, "")
}

fn lists_same(a: Value, b: Value, heap: &std::rc::Rc<std::cell::RefCell<blots_core::heap::Heap>>) -> bool {
    match (read_list(a, heap), read_list(b, heap)) {
        (Some((n, x)), Some((m, y))) => n == m && (n < 1 || same_value(x[0], y[0])) && (n < 2 || same_value(x[1], y[1])) && (n < 3 || same_value(x[2], y[2])),
        _ => false,
    }
}

/// `[a, b] via f`  ==  `map([a, b], f)`  ==  the expected list, for a built-in callee.
/// One form per path (symbolic choice): both forms in one path end in CBMC `Status: ERROR` after
/// 20 min; agreement follows from both being equal to the same expected list.
macro_rules! c13_via_map {
    ($name:ident, $f:expr, $want:expr) => {
        kproof_calls!(crate::util::stub_anyhow_msg_cut, crate::util::stub_anyhow_format_err_cut, 5, fn $name() {
            let (a, b): (f64, f64) = (kani::any(), kani::any());
            let l = arena::list_cell(vec![Value::Number(a), Value::Number(b)]);
            let heap = arena::heap();
            let via_form: bool = kani::any();
            let r = if via_form {
                let e1 = arena::binop(BinaryOp::Via, arena::list2(num(a), num(b)), Expr::BuiltIn($f));
                let r = evaluate_ast(&e1, heap.clone(), arena::env(), 0, src());
                std::mem::forget(e1);
                r
            } else {
                map_like(B::Map, l, $f, &heap)
            };
            match r {
                Ok(v) => {
                    let (w0, w1): (Value, Value) = ($want)(a, b); // called in place: no `fn` pointer (DESIGN 2(13))
                    match read_list(v, &heap) {
                        Some((2, el)) => assert!(same_value(el[0], w0) && same_value(el[1], w1)),
                        _ => panic!("via / map: wrong shape"),
                    }
                }
                Err(_) => panic!("via / map failed on numbers"),
            }
            kani::cover!(via_form, "reach the end in the via form");
            kani::cover!(!via_form, "reach the end in the map form");
            std::mem::forget(heap);
        });
    };
}
c13_via_map!(c13_q_via_map_abs, B::Abs, |a: f64, b: f64| (Value::Number(a.abs()), Value::Number(b.abs())));
// a built-in that accepts a second argument receives the 0-based index: min(x, i)
c13_via_map!(c13_q_via_map_min_gets_index, B::Min, |a: f64, b: f64| (Value::Number(f64::INFINITY.min(a).min(0.0)), Value::Number(f64::INFINITY.min(b).min(1.0))));
c13_via_map!(c13_t_via_map_floor, B::Floor, |a: f64, b: f64| (Value::Number(a.floor()), Value::Number(b.floor())));

/// `x into f` == `f(x)` (application = the built-in's implementation on the same argument)
kproof_calls!(crate::util::stub_anyhow_msg_panic, crate::util::stub_anyhow_format_err_panic, 5, fn c13_q_into_is_application() {
    let a: f64 = kani::any();
    let heap = arena::heap();
    let e1 = arena::binop(BinaryOp::Into, num(a), Expr::BuiltIn(B::Abs));
    match (evaluate_ast(&e1, heap.clone(), arena::env(), 0, src()), B::Abs.call(crate::av![Value::Number(a)], heap.clone(), arena::env(), 0, "")) {
        (Ok(v1), Ok(v2)) => assert!(same_value(v1, v2) && same_value(v1, Value::Number(a.abs()))),
        _ => panic!("into / application failed"),
    }
    // a list on the left is passed whole: [a, a] into len == 2
    let e3 = arena::binop(BinaryOp::Into, arena::list2(num(a), num(a)), Expr::BuiltIn(B::Len));
    match evaluate_ast(&e3, heap.clone(), arena::env(), 0, src()) {
        Ok(v) => assert!(same_value(v, Value::Number(2.0))),
        Err(_) => panic!("list into len failed"),
    }
    kani::cover!(true, "reach-end");
    std::mem::forget((e1, e3));
    std::mem::forget(heap);
});

/// `[p, q] where to_bool` == `filter([p, q], to_bool)` == the `true` elements, in order (one form per path)
kproof_calls!(crate::util::stub_anyhow_msg_cut, crate::util::stub_anyhow_format_err_cut, 5, fn c13_q_where_filter_to_bool() {
    let (p, q): (bool, bool) = (kani::any(), kani::any());
    let l = arena::list_cell(vec![Value::Bool(p), Value::Bool(q)]);
    let heap = arena::heap();
    let where_form: bool = kani::any();
    let r = if where_form {
        let e1 = arena::binop(BinaryOp::Where, arena::list2(Expr::Bool(p), Expr::Bool(q)), Expr::BuiltIn(B::ToBool));
        let r = evaluate_ast(&e1, heap.clone(), arena::env(), 0, src());
        std::mem::forget(e1);
        r
    } else {
        map_like(B::Filter, l, B::ToBool, &heap)
    };
    match r {
        Ok(v) => match read_list(v, &heap) {
            Some((n, el)) => {
                assert!(n == p as usize + q as usize);
                if n > 0 { assert!(same_value(el[0], Value::Bool(true))); }
                if n > 1 { assert!(same_value(el[1], Value::Bool(true))); }
            }
            None => panic!("where / filter: not a list"),
        },
        Err(_) => panic!("where / filter failed on booleans"),
    }
    kani::cover!(where_form && p && !q, "reach the end in the where form on a mixed list");
    kani::cover!(!where_form && !p && q, "reach the end in the filter form on a mixed list");
    std::mem::forget(heap);
});

/// both forms fail alike: a callee that errs on an element (abs of a boolean)
kproof_calls!(crate::util::stub_anyhow_msg_cut, crate::util::stub_anyhow_format_err_cut, 5, fn c13_q_via_map_fail_alike() {
    let a: f64 = kani::any();
    let t: bool = kani::any();
    kani::cover!(true, "reach-call");
    let l = arena::list_cell(vec![Value::Number(a), Value::Bool(t)]);
    let heap = arena::heap();
    let k: bool = kani::any();
    // one of the two equivalent forms per path (a type error ends a `cut` path)
    if k {
        let e1 = arena::binop(BinaryOp::Via, arena::list2(num(a), Expr::Bool(t)), Expr::BuiltIn(B::Abs));
        assert!(evaluate_ast(&e1, heap.clone(), arena::env(), 0, src()).is_err());
        std::mem::forget(e1);
    } else {
        assert!(map_like(B::Map, l, B::Abs, &heap).is_err());
    }
    std::mem::forget(heap);
});

/// a predicate that returns a non-boolean makes *both* `where` and `filter` fail
kproof_calls!(crate::util::stub_anyhow_msg_cut, crate::util::stub_anyhow_format_err_cut, 5, fn c13_q_where_filter_fail_alike_nonbool() {
    let (a, b): (f64, f64) = (kani::any(), kani::any());
    kani::cover!(true, "reach-call");
    let l = arena::list_cell(vec![Value::Number(a), Value::Number(b)]);
    let heap = arena::heap();
    let k: bool = kani::any();
    if k {
        let e1 = arena::binop(BinaryOp::Where, arena::list2(num(a), num(b)), Expr::BuiltIn(B::Abs));
        assert!(evaluate_ast(&e1, heap.clone(), arena::env(), 0, src()).is_err());
        std::mem::forget(e1);
    } else {
        assert!(map_like(B::Filter, l, B::Abs, &heap).is_err());
    }
    std::mem::forget(heap);
});

/// the empty list is passed whole too: `[] into len` == len([]) == 0; `[] via abs` == map([], abs) == []
kproof_calls!(crate::util::stub_anyhow_msg_panic, crate::util::stub_anyhow_format_err_panic, 5, fn c13_q_empty_list_into_via() {
    let el = arena::list_cell(vec![]);
    let heap = arena::heap();
    let e1 = arena::binop(BinaryOp::Into, arena::list0(), Expr::BuiltIn(B::Len));
    match (evaluate_ast(&e1, heap.clone(), arena::env(), 0, src()), B::Len.call(crate::av![el], heap.clone(), arena::env(), 0, "")) {
        (Ok(v1), Ok(v2)) => assert!(same_value(v1, v2) && same_value(v1, Value::Number(0.0))),
        _ => panic!("[] into len failed"),
    }
    let e3 = arena::binop(BinaryOp::Via, arena::list0(), Expr::BuiltIn(B::Abs));
    match (evaluate_ast(&e3, heap.clone(), arena::env(), 0, src()), map_like(B::Map, el, B::Abs, &heap)) {
        (Ok(v1), Ok(v2)) => assert!(matches!(read_list(v1, &heap), Some((0, _))) && matches!(read_list(v2, &heap), Some((0, _)))),
        _ => panic!("[] via abs failed"),
    }
    kani::cover!(true, "reach-end");
    std::mem::forget((e1, e3));
    std::mem::forget(heap);
});

/// every / some are the conjunction / disjunction of the predicate's results (predicate to_bool,
/// which succeeds on every boolean)
macro_rules! c13_quantifier {
    ($name:ident, $hof:expr, $want:expr) => {
        kproof_calls!(crate::util::stub_anyhow_msg_cut, crate::util::stub_anyhow_format_err_cut, 5, fn $name() {
            let (p, q): (bool, bool) = (kani::any(), kani::any());
            let l = arena::list_cell(vec![Value::Bool(p), Value::Bool(q)]);
            let heap = arena::heap();
            match map_like($hof, l, B::ToBool, &heap) {
                Ok(v) => assert!(same_value(v, Value::Bool(($want)(p, q)))),
                Err(_) => panic!("every / some failed on booleans"),
            }
            kani::cover!(p && !q, "reach the end on a mixed list");
            kani::cover!(!p && !q, "reach the end on an all-false list");
            std::mem::forget(heap);
        });
    };
}
c13_quantifier!(c13_t_every_is_conjunction, B::Every, |p: bool, q: bool| p && q);
c13_quantifier!(c13_t_some_is_disjunction, B::Some, |p: bool, q: bool| p || q);
