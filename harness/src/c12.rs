//! C12: equality and ordering are coherent (scalar and small-list clauses).
use crate::av;
use crate::kproof;
use crate::util::*;
use blots_core::heap::*;
use blots_core::values::*;
use std::cmp::Ordering;

kproof!(noerr, 3, fn c12_q_num_num_trichotomy() {
    let a: f64 = kani::any();
    let b: f64 = kani::any();
    kani::assume(!a.is_nan() && !b.is_nan());
    let heap = arena::heap();
    let h = heap.borrow();
    let x = Value::Number(a);
    let y = Value::Number(b);
    let eq = oka(x.equals(&y, &h));
    let cmp = oka(x.compare(&y, &h));
    // exactly one of <, ==, > ; equals agrees with compare; antisymmetry
    assert!(cmp.is_some());
    assert!(eq == (cmp == Some(Ordering::Equal)));
    let rev = oka(y.compare(&x, &h));
    assert!(rev == cmp.map(|o| o.reverse()));
    assert!(oka(y.equals(&x, &h)) == eq);
    assert!(oka(x.equals(&x, &h)));
    kani::cover!(true, "reach-end");
    drop(h);
    std::mem::forget(heap);
});

kproof!(noerr, 3, fn c12_q_num_transitivity() {
    let a: f64 = kani::any();
    let b: f64 = kani::any();
    let c: f64 = kani::any();
    kani::assume(!a.is_nan() && !b.is_nan() && !c.is_nan());
    let heap = arena::heap();
    let h = heap.borrow();
    let (x, y, z) = (Value::Number(a), Value::Number(b), Value::Number(c));
    let lt = |p: &Value, q: &Value| oka(p.compare(q, &h)) == Some(Ordering::Less);
    let eq = |p: &Value, q: &Value| oka(p.equals(q, &h));
    if lt(&x, &y) && lt(&y, &z) {
        assert!(lt(&x, &z));
    }
    if eq(&x, &y) && eq(&y, &z) {
        assert!(eq(&x, &z));
    }
    if eq(&x, &y) && lt(&y, &z) {
        assert!(lt(&x, &z));
    }
    kani::cover!(true, "reach-end");
    drop(h);
    std::mem::forget(heap);
});

kproof!(noerr, 3, fn c12_q_mixed_scalars_never_equal_never_ordered() {
    let a: f64 = kani::any();
    let b: bool = kani::any();
    let heap = arena::heap();
    let h = heap.borrow();
    let vals = [Value::Number(a), Value::Bool(b), Value::Null];
    let i: usize = kani::any();
    let j: usize = kani::any();
    kani::assume(i < 3 && j < 3 && i != j);
    assert!(!oka(vals[i].equals(&vals[j], &h)));
    assert!(oka(vals[i].compare(&vals[j], &h)).is_none());
    // null is equal to itself and unordered; bools: false < true
    assert!(oka(Value::Null.equals(&Value::Null, &h)));
    assert!(oka(Value::Null.compare(&Value::Null, &h)).is_none());
    let c: bool = kani::any();
    let bc = oka(Value::Bool(b).compare(&Value::Bool(c), &h));
    assert!(bc == Some(if b == c { Ordering::Equal } else if !b { Ordering::Less } else { Ordering::Greater }));
    assert!(oka(Value::Bool(b).equals(&Value::Bool(c), &h)) == (b == c));
    kani::cover!(true, "reach-end");
    drop(h);
    std::mem::forget(heap);
});

// ---------------------------------------------------------------------------------------------
// the ten observables of the statement: six dot operators (through the evaluator) and the four
// unchecked built-ins, against Value::compare / Value::equals' specification
use crate::c14::call_bi;
use blots_core::ast::*;
use blots_core::expressions::evaluate_ast;
use blots_core::functions::BuiltInFunction as B;

/// numbers: each dot operator returns exactly the IEEE relation (no NaN), u* agree
kproof!(noerr_nocall, 9, fn c12_q_dot_ops_numbers() {
    let a: f64 = kani::any();
    let b: f64 = kani::any();
    kani::assume(!a.is_nan() && !b.is_nan());
    let heap = arena::heap();
    let ops = [BinaryOp::DotEqual, BinaryOp::DotNotEqual, BinaryOp::DotLess, BinaryOp::DotLessEq, BinaryOp::DotGreater, BinaryOp::DotGreaterEq];
    let want = [a == b, a != b, a < b, a <= b, a > b, a >= b];
    let mut i = 0;
    while i < 6 {
        let e = arena::binop(ops[i], Expr::Number(a), Expr::Number(b));
        match evaluate_ast(&e, heap.clone(), arena::env(), 0, src()) {
            Ok(v) => assert!(same_value(v, Value::Bool(want[i]))),
            Err(_) => panic!("dot operator failed on two numbers"),
        }
        std::mem::forget(e);
        i += 1;
    }
    kani::cover!(a == 0.0 && b == 0.0 && a.to_bits() != b.to_bits(), "reach 0.0 vs -0.0");
    std::mem::forget(heap);
});
kproof!(noerr, 3, fn c12_q_unchecked_builtins_numbers() {
    let a: f64 = kani::any();
    let b: f64 = kani::any();
    kani::assume(!a.is_nan() && !b.is_nan());
    let heap = arena::heap();
    let (x, y) = (Value::Number(a), Value::Number(b));
    assert!(same_value(ok(call_bi(B::Ugt, av![x, y], &heap)), Value::Bool(a > b)));
    assert!(same_value(ok(call_bi(B::Ult, av![x, y], &heap)), Value::Bool(a < b)));
    assert!(same_value(ok(call_bi(B::Ugte, av![x, y], &heap)), Value::Bool(a >= b)));
    assert!(same_value(ok(call_bi(B::Ulte, av![x, y], &heap)), Value::Bool(a <= b)));
    kani::cover!(a == 0.0 && b == 0.0 && a.to_bits() != b.to_bits(), "reach 0.0 vs -0.0");
    std::mem::forget(heap);
});
/// unordered or different types: .== false / .!= true (null .== null true), the four orderings
/// fail, the four unchecked built-ins return false
kproof!(cut_nocall, 9, fn c12_q_dot_ops_unordered_types_fail() {
    let a: f64 = kani::any();
    let b: bool = kani::any();
    kani::cover!(true, "reach-call");
    let heap = arena::heap();
    let ords = [BinaryOp::DotLess, BinaryOp::DotLessEq, BinaryOp::DotGreater, BinaryOp::DotGreaterEq];
    let mut i = 0;
    while i < 4 {
        let e1 = arena::binop(ords[i], Expr::Null, Expr::Null);
        assert!(evaluate_ast(&e1, heap.clone(), arena::env(), 0, src()).is_err());
        let e2 = arena::binop(ords[i], Expr::Number(a), Expr::Bool(b));
        assert!(evaluate_ast(&e2, heap.clone(), arena::env(), 0, src()).is_err());
        let e3 = arena::binop(ords[i], Expr::Bool(b), Expr::Null);
        assert!(evaluate_ast(&e3, heap.clone(), arena::env(), 0, src()).is_err());
        std::mem::forget((e1, e2, e3));
        i += 1;
    }
    std::mem::forget(heap);
});
kproof!(noerr_nocall, 9, fn c12_q_dot_eq_mixed_types() {
    let a: f64 = kani::any();
    let b: bool = kani::any();
    let heap = arena::heap();
    let pairs = [(Expr::Null, Expr::Null, true), (Expr::Number(a), Expr::Bool(b), false), (Expr::Bool(b), Expr::Null, false), (Expr::Null, Expr::Number(a), false)];
    for (l, r, want) in pairs {
        let e = arena::binop(BinaryOp::DotEqual, l.clone(), r.clone());
        match evaluate_ast(&e, heap.clone(), arena::env(), 0, src()) {
            Ok(v) => assert!(same_value(v, Value::Bool(want))),
            Err(_) => panic!(".== failed"),
        }
        let e2 = arena::binop(BinaryOp::DotNotEqual, l, r);
        match evaluate_ast(&e2, heap.clone(), arena::env(), 0, src()) {
            Ok(v) => assert!(same_value(v, Value::Bool(!want))),
            Err(_) => panic!(".!= failed"),
        }
        std::mem::forget((e, e2));
    }
    kani::cover!(true, "reach-end");
    std::mem::forget(heap);
});
kproof!(noerr, 9, fn c12_t_unchecked_builtins_unordered_false() {
    let a: f64 = kani::any();
    let b: bool = kani::any();
    let heap = arena::heap();
    let fs = [B::Ugt, B::Ult, B::Ugte, B::Ulte];
    let mut i = 0;
    while i < 4 {
        assert!(same_value(ok(call_bi(fs[i], av![Value::Null, Value::Null], &heap)), Value::Bool(false)));
        assert!(same_value(ok(call_bi(fs[i], av![Value::Number(a), Value::Bool(b)], &heap)), Value::Bool(false)));
        assert!(same_value(ok(call_bi(fs[i], av![Value::Number(a), Value::Number(f64::NAN)], &heap)), Value::Bool(false)));
        i += 1;
    }
    kani::cover!(true, "reach-end");
    std::mem::forget(heap);
});

// ---------------------------------------------------------------------------------------------
// lists: lexicographic, proper prefix first; equality element-wise
fn cmp_num(a: f64, b: f64) -> Ordering {
    if a < b { Ordering::Less } else if a > b { Ordering::Greater } else { Ordering::Equal }
}
kproof!(noerr, 5, fn c12_q_list2_vs_list2_lexicographic() {
    let (a0, a1, b0, b1): (f64, f64, f64, f64) = (kani::any(), kani::any(), kani::any(), kani::any());
    kani::assume(!a0.is_nan() && !a1.is_nan() && !b0.is_nan() && !b1.is_nan());
    let l = arena::list_cell(vec![Value::Number(a0), Value::Number(a1)]);
    let m = arena::list_cell(vec![Value::Number(b0), Value::Number(b1)]);
    let heap = arena::heap();
    let h = heap.borrow();
    let want = match cmp_num(a0, b0) { Ordering::Equal => cmp_num(a1, b1), o => o };
    assert!(oka(l.compare(&m, &h)) == Some(want));
    assert!(oka(m.compare(&l, &h)) == Some(want.reverse()));
    assert!(oka(l.equals(&m, &h)) == (want == Ordering::Equal));
    assert!(oka(l.equals(&l, &h)));
    kani::cover!(want == Ordering::Equal, "reach equal lists");
    drop(h);
    std::mem::forget(heap);
});
kproof!(noerr, 5, fn c12_q_list_prefix_first() {
    let (a0, a1, b0): (f64, f64, f64) = (kani::any(), kani::any(), kani::any());
    kani::assume(!a0.is_nan() && !a1.is_nan() && !b0.is_nan());
    let l = arena::list_cell(vec![Value::Number(a0), Value::Number(a1)]);
    let m = arena::list_cell(vec![Value::Number(b0)]);
    let e = arena::list_cell(vec![]);
    let heap = arena::heap();
    let h = heap.borrow();
    // [b0] vs [a0, a1]: decided by the first element, a proper prefix is smaller
    let want = match cmp_num(b0, a0) { Ordering::Equal => Ordering::Less, o => o };
    assert!(oka(m.compare(&l, &h)) == Some(want));
    assert!(oka(l.compare(&m, &h)) == Some(want.reverse()));
    assert!(!oka(l.equals(&m, &h)));
    // the empty list is a proper prefix of every non-empty list, and equal to itself
    assert!(oka(e.compare(&m, &h)) == Some(Ordering::Less));
    assert!(oka(m.compare(&e, &h)) == Some(Ordering::Greater));
    assert!(oka(e.compare(&e, &h)) == Some(Ordering::Equal));
    assert!(oka(e.equals(&e, &h)) && !oka(e.equals(&m, &h)));
    // a list and a number are neither equal nor ordered
    assert!(!oka(l.equals(&Value::Number(a0), &h)));
    assert!(oka(l.compare(&Value::Number(a0), &h)).is_none());
    kani::cover!(b0 == a0, "reach the prefix case");
    drop(h);
    std::mem::forget(heap);
});
kproof!(noerr, 5, fn c12_t_list1_transitivity() {
    let (a, b, c): (f64, f64, f64) = (kani::any(), kani::any(), kani::any());
    kani::assume(!a.is_nan() && !b.is_nan() && !c.is_nan());
    let x = arena::list_cell(vec![Value::Number(a)]);
    let y = arena::list_cell(vec![Value::Number(b)]);
    let z = arena::list_cell(vec![Value::Number(c)]);
    let heap = arena::heap();
    let h = heap.borrow();
    let lt = |p: &Value, q: &Value| oka(p.compare(q, &h)) == Some(Ordering::Less);
    let eq = |p: &Value, q: &Value| oka(p.equals(q, &h));
    if lt(&x, &y) && lt(&y, &z) { assert!(lt(&x, &z)); }
    if eq(&x, &y) && eq(&y, &z) { assert!(eq(&x, &z)); }
    assert!(eq(&x, &y) == eq(&y, &x));
    kani::cover!(true, "reach-end");
    drop(h);
    std::mem::forget(heap);
});
/// nested list: [[a]] vs [[b]] and the dot operators through the evaluator on list operands
kproof!(noerr_nocall, 9, fn c12_t_dot_ops_lists_through_evaluator() {
    let (a0, a1, b0, b1): (f64, f64, f64, f64) = (kani::any(), kani::any(), kani::any(), kani::any());
    kani::assume(!a0.is_nan() && !a1.is_nan() && !b0.is_nan() && !b1.is_nan());
    let heap = arena::heap();
    let want = match cmp_num(a0, b0) { Ordering::Equal => cmp_num(a1, b1), o => o };
    let ops = [BinaryOp::DotEqual, BinaryOp::DotNotEqual, BinaryOp::DotLess, BinaryOp::DotLessEq, BinaryOp::DotGreater, BinaryOp::DotGreaterEq];
    let res = [want == Ordering::Equal, want != Ordering::Equal, want == Ordering::Less, want != Ordering::Greater, want == Ordering::Greater, want != Ordering::Less];
    let mut i = 0;
    while i < 6 {
        let e = arena::binop(ops[i], arena::list2(Expr::Number(a0), Expr::Number(a1)), arena::list2(Expr::Number(b0), Expr::Number(b1)));
        match evaluate_ast(&e, heap.clone(), arena::env(), 0, src()) {
            Ok(v) => assert!(same_value(v, Value::Bool(res[i]))),
            Err(_) => panic!("dot operator failed on two number lists"),
        }
        std::mem::forget(e);
        i += 1;
    }
    kani::cover!(true, "reach-end");
    std::mem::forget(heap);
});

// ---- strings: lexicographic by bytes (= code points), a proper prefix first ----
fn ascii_string(b: &[u8]) -> Value {
    let mut v = Vec::<u8>::with_capacity(2);
    let mut i = 0;
    while i < b.len() {
        v.push(b[i]);
        i += 1;
    }
    let s = unsafe { String::from_utf8_unchecked(v) };
    Value::String(StringPointer::new(arena::cell(HeapValue::String(s))))
}
fn cmp_u8(a: u8, b: u8) -> Ordering {
    if a < b { Ordering::Less } else if a > b { Ordering::Greater } else { Ordering::Equal }
}
/// two 2-byte ASCII strings in different heap cells, a 1-byte string and the empty string:
/// compare is the lexicographic order of the bytes, equals agrees with compare == Equal,
/// a proper prefix is smaller, a string and a number are neither equal nor ordered
kproof!(noerr, 5, fn c12_q_string_lexicographic_prefix_first() {
    let (a0, a1, b0, b1, c0): (u8, u8, u8, u8, u8) = (kani::any(), kani::any(), kani::any(), kani::any(), kani::any());
    kani::assume(a0 < 128 && a1 < 128 && b0 < 128 && b1 < 128 && c0 < 128);
    let s = ascii_string(&[a0, a1]);
    let t = ascii_string(&[b0, b1]);
    let u = ascii_string(&[c0]);
    let e = ascii_string(&[]);
    let heap = arena::heap();
    let h = heap.borrow();
    let want = match cmp_u8(a0, b0) { Ordering::Equal => cmp_u8(a1, b1), o => o };
    assert!(oka(s.compare(&t, &h)) == Some(want));
    assert!(oka(t.compare(&s, &h)) == Some(want.reverse()));
    assert!(oka(s.equals(&t, &h)) == (want == Ordering::Equal));
    assert!(oka(t.equals(&s, &h)) == (want == Ordering::Equal));
    assert!(oka(s.equals(&s, &h)) && oka(s.compare(&s, &h)) == Some(Ordering::Equal));
    // [c0] vs [a0, a1]: decided by the first byte, a proper prefix is smaller
    let want_p = match cmp_u8(c0, a0) { Ordering::Equal => Ordering::Less, o => o };
    assert!(oka(u.compare(&s, &h)) == Some(want_p));
    assert!(oka(s.compare(&u, &h)) == Some(want_p.reverse()));
    assert!(!oka(u.equals(&s, &h)) && !oka(s.equals(&u, &h)));
    // the empty string is a proper prefix of every non-empty string
    assert!(oka(e.compare(&u, &h)) == Some(Ordering::Less));
    assert!(oka(u.compare(&e, &h)) == Some(Ordering::Greater));
    assert!(oka(e.compare(&e, &h)) == Some(Ordering::Equal));
    assert!(oka(e.equals(&e, &h)) && !oka(e.equals(&u, &h)));
    // a string and a number are neither equal nor ordered
    assert!(!oka(s.equals(&Value::Number(0.0), &h)));
    assert!(oka(s.compare(&Value::Number(0.0), &h)).is_none());
    kani::cover!(a0 == b0 && a1 == b1, "reach equal contents in different cells");
    kani::cover!(c0 == a0, "reach the prefix case");
    drop(h);
    std::mem::forget(heap);
});
/// three 2-byte strings: trichotomy, transitivity of < and of .==, and the unchecked built-ins
/// ugt / ult / ugte / ulte agree with the order on strings
kproof!(noerr, 5, fn c12_t_string_transitivity_and_unchecked() {
    let b: [u8; 6] = [kani::any(), kani::any(), kani::any(), kani::any(), kani::any(), kani::any()];
    kani::assume(b[0] < 128 && b[1] < 128 && b[2] < 128 && b[3] < 128 && b[4] < 128 && b[5] < 128);
    let x = ascii_string(&[b[0], b[1]]);
    let y = ascii_string(&[b[2], b[3]]);
    let z = ascii_string(&[b[4], b[5]]);
    let heap = arena::heap();
    {
        let h = heap.borrow();
        let cmp = |p: &Value, q: &Value| oka(p.compare(q, &h));
        let lt = |p: &Value, q: &Value| oka(p.compare(q, &h)) == Some(Ordering::Less);
        let eq = |p: &Value, q: &Value| oka(p.equals(q, &h));
        assert!(cmp(&x, &y).is_some());
        assert!(eq(&x, &y) == (cmp(&x, &y) == Some(Ordering::Equal)));
        if lt(&x, &y) && lt(&y, &z) { assert!(lt(&x, &z)); }
        if eq(&x, &y) && eq(&y, &z) { assert!(eq(&x, &z)); }
        assert!(eq(&x, &y) == eq(&y, &x));
    }
    let want = match cmp_u8(b[0], b[2]) { Ordering::Equal => cmp_u8(b[1], b[3]), o => o };
    assert!(same_value(ok(call_bi(B::Ugt, av![x, y], &heap)), Value::Bool(want == Ordering::Greater)));
    assert!(same_value(ok(call_bi(B::Ult, av![x, y], &heap)), Value::Bool(want == Ordering::Less)));
    assert!(same_value(ok(call_bi(B::Ugte, av![x, y], &heap)), Value::Bool(want != Ordering::Less)));
    assert!(same_value(ok(call_bi(B::Ulte, av![x, y], &heap)), Value::Bool(want != Ordering::Greater)));
    kani::cover!(b[0] == b[2] && b[1] < b[3] && b[2] == b[4] && b[3] < b[5], "reach a chain x < y < z on the second byte");
    std::mem::forget(heap);
});
/// the six dot operators through the evaluator on two 1-byte ASCII string literals
kproof!(noerr_nocall, 9, fn c12_t_dot_ops_strings_through_evaluator() {
    let (a0, b0): (u8, u8) = (kani::any(), kani::any());
    kani::assume(a0 < 128 && b0 < 128);
    let heap = arena::heap();
    let want = cmp_u8(a0, b0);
    let ops = [BinaryOp::DotEqual, BinaryOp::DotNotEqual, BinaryOp::DotLess, BinaryOp::DotLessEq, BinaryOp::DotGreater, BinaryOp::DotGreaterEq];
    let res = [want == Ordering::Equal, want != Ordering::Equal, want == Ordering::Less, want != Ordering::Greater, want == Ordering::Greater, want != Ordering::Less];
    let mut i = 0;
    while i < 6 {
        let mut va = Vec::<u8>::with_capacity(1);
        va.push(a0);
        let mut vb = Vec::<u8>::with_capacity(1);
        vb.push(b0);
        let (sa, sb) = unsafe { (String::from_utf8_unchecked(va), String::from_utf8_unchecked(vb)) };
        let e = arena::binop(ops[i], Expr::String(sa), Expr::String(sb));
        match evaluate_ast(&e, heap.clone(), arena::env(), 0, src()) {
            Ok(v) => assert!(same_value(v, Value::Bool(res[i]))),
            Err(_) => panic!("dot operator failed on two strings"),
        }
        std::mem::forget(e);
        i += 1;
    }
    kani::cover!(a0 == b0, "reach equal strings");
    std::mem::forget(heap);
});
