//! C12: equality and ordering are coherent (scalar and small-list clauses).
use crate::kproof;
use crate::util::*;
use blots_core::heap::*;
use blots_core::values::*;
use std::cmp::Ordering;

kproof!(noerr, 3, fn c12_q_num_num_trichotomy() {
    let a: f64 = kani::any();
    let b: f64 = kani::any();
    kani::assume(!a.is_nan() && !b.is_nan());
    let heap = arena::heap();
    let h = heap.borrow();
    let x = Value::Number(a);
    let y = Value::Number(b);
    let eq = x.equals(&y, &h).unwrap();
    let cmp = x.compare(&y, &h).unwrap();
    // exactly one of <, ==, > ; equals agrees with compare; antisymmetry
    assert!(cmp.is_some());
    assert!(eq == (cmp == Some(Ordering::Equal)));
    let rev = y.compare(&x, &h).unwrap();
    assert!(rev == cmp.map(|o| o.reverse()));
    assert!(y.equals(&x, &h).unwrap() == eq);
    assert!(x.equals(&x, &h).unwrap());
    kani::cover!(true, "reach-end");
    drop(h);
    std::mem::forget(heap);
});

kproof!(noerr, 3, fn c12_q_num_transitivity() {
    let a: f64 = kani::any();
    let b: f64 = kani::any();
    let c: f64 = kani::any();
    kani::assume(!a.is_nan() && !b.is_nan() && !c.is_nan());
    let heap = arena::heap();
    let h = heap.borrow();
    let (x, y, z) = (Value::Number(a), Value::Number(b), Value::Number(c));
    let lt = |p: &Value, q: &Value| p.compare(q, &h).unwrap() == Some(Ordering::Less);
    let eq = |p: &Value, q: &Value| p.equals(q, &h).unwrap();
    if lt(&x, &y) && lt(&y, &z) {
        assert!(lt(&x, &z));
    }
    if eq(&x, &y) && eq(&y, &z) {
        assert!(eq(&x, &z));
    }
    if eq(&x, &y) && lt(&y, &z) {
        assert!(lt(&x, &z));
    }
    kani::cover!(true, "reach-end");
    drop(h);
    std::mem::forget(heap);
});

kproof!(noerr, 3, fn c12_q_mixed_scalars_never_equal_never_ordered() {
    let a: f64 = kani::any();
    let b: bool = kani::any();
    let heap = arena::heap();
    let h = heap.borrow();
    let vals = [Value::Number(a), Value::Bool(b), Value::Null];
    let i: usize = kani::any();
    let j: usize = kani::any();
    kani::assume(i < 3 && j < 3 && i != j);
    assert!(!vals[i].equals(&vals[j], &h).unwrap());
    assert!(vals[i].compare(&vals[j], &h).unwrap().is_none());
    // null is equal to itself and unordered; bools: false < true
    assert!(Value::Null.equals(&Value::Null, &h).unwrap());
    assert!(Value::Null.compare(&Value::Null, &h).unwrap().is_none());
    let c: bool = kani::any();
    let bc = Value::Bool(b).compare(&Value::Bool(c), &h).unwrap();
    assert!(bc == Some(if b == c { Ordering::Equal } else if !b { Ordering::Less } else { Ordering::Greater }));
    assert!(Value::Bool(b).equals(&Value::Bool(c), &h).unwrap() == (b == c));
    kani::cover!(true, "reach-end");
    drop(h);
    std::mem::forget(heap);
});
