//! C15: aggregates equal their definitions in both calling conventions (1..3 numbers).
use crate::c11::any_f64_m;
use crate::c14::call_bi;
use crate::av;
use crate::kproof;
use crate::util::*;
use blots_core::functions::BuiltInFunction;
use blots_core::values::*;

fn n(x: f64) -> Value {
    Value::Number(x)
}
/// equal as numbers (0.0 == -0.0), NaNs identified: "up to double-precision rounding" leaves the
/// sign of a zero sum to the implementation's fold identity
fn eqnum(v: Value, w: f64) -> bool {
    match v {
        Value::Number(x) => x == w || (x.is_nan() && w.is_nan()),
        _ => false,
    }
}

/// f(list) and f(varargs) are bit-identical and equal the reference, for 3 numbers
macro_rules! c15_both_conventions3 {
    ($name:ident, $f:expr, $gen:expr, $pre:expr, $reference:expr, $cmp:expr) => {
        kproof!(noerr, 7, fn $name() {
            let (a, b, c): (f64, f64, f64) = ($gen, $gen, $gen);
            let pre: fn(f64, f64, f64) -> bool = $pre;
            kani::assume(pre(a, b, c));
            let l = arena::list_cell(vec![n(a), n(b), n(c)]);
            let heap = arena::heap();
            let r1 = ok(call_bi($f, av![l], &heap));
            let r2 = ok(call_bi($f, av![n(a), n(b), n(c)], &heap));
            assert!(same_value(r1, r2));
            let reference: fn(f64, f64, f64) -> f64 = $reference;
            let cmp: fn(Value, f64) -> bool = $cmp;
            assert!(cmp(r1, reference(a, b, c)));
            kani::cover!(true, "reach-end");
            std::mem::forget(heap);
        });
    };
}
fn no_nan(a: f64, b: f64, c: f64) -> bool {
    !a.is_nan() && !b.is_nan() && !c.is_nan()
}
fn finite(a: f64, b: f64, c: f64) -> bool {
    a.is_finite() && b.is_finite() && c.is_finite()
}
fn min3(a: f64, b: f64, c: f64) -> f64 {
    let m = if b < a { b } else { a };
    if c < m { c } else { m }
}
fn max3(a: f64, b: f64, c: f64) -> f64 {
    let m = if b > a { b } else { a };
    if c > m { c } else { m }
}
fn med3(a: f64, b: f64, c: f64) -> f64 {
    // middle order statistic
    if (a <= b && b <= c) || (c <= b && b <= a) { b } else if (b <= a && a <= c) || (c <= a && a <= b) { a } else { c }
}
c15_both_conventions3!(c15_q_sum3, BuiltInFunction::Sum, any_f64_m(6), finite, |a, b, c| a + b + c, eqnum);
c15_both_conventions3!(c15_t_prod3, BuiltInFunction::Prod, any_f64_m(3), finite, |a, b, c| a * b * c, eqnum);
c15_both_conventions3!(c15_t_avg3, BuiltInFunction::Avg, any_f64_m(4), finite, |a, b, c| (a + b + c) / 3.0, eqnum);
c15_both_conventions3!(c15_q_min3, BuiltInFunction::Min, kani::any(), no_nan, min3, eqnum);
c15_both_conventions3!(c15_q_max3, BuiltInFunction::Max, kani::any(), no_nan, max3, eqnum);
c15_both_conventions3!(c15_q_median3, BuiltInFunction::Median, kani::any(), no_nan, med3, eqnum);

// two numbers: even-length median is the mean of the two; varargs == list
kproof!(noerr, 6, fn c15_q_median2_min2_max2() {
    let (a, b): (f64, f64) = (any_f64_m(8), any_f64_m(8));
    kani::assume(!a.is_nan() && !b.is_nan());
    let l = arena::list_cell(vec![n(a), n(b)]);
    let heap = arena::heap();
    let m1 = ok(call_bi(BuiltInFunction::Median, av![l], &heap));
    let m2 = ok(call_bi(BuiltInFunction::Median, av![n(a), n(b)], &heap));
    assert!(same_value(m1, m2));
    let lo = if a <= b { a } else { b };
    let hi = if a <= b { b } else { a };
    assert!(eqnum(m1, (lo + hi) / 2.0));
    let mn1 = ok(call_bi(BuiltInFunction::Min, av![l], &heap));
    let mn2 = ok(call_bi(BuiltInFunction::Min, av![n(a), n(b)], &heap));
    let mx1 = ok(call_bi(BuiltInFunction::Max, av![l], &heap));
    let mx2 = ok(call_bi(BuiltInFunction::Max, av![n(a), n(b)], &heap));
    assert!(same_value(mn1, mn2) && same_value(mx1, mx2));
    assert!(eqnum(mn1, lo) && eqnum(mx1, hi));
    kani::cover!(a == f64::NEG_INFINITY && b == f64::NEG_INFINITY, "reach -inf, -inf");
    std::mem::forget(heap);
});

// one number: every aggregate returns it, in both conventions
kproof!(noerr, 8, fn c15_q_singleton() {
    let a: f64 = kani::any();
    kani::assume(!a.is_nan());
    let l = arena::list_cell(vec![n(a)]);
    let heap = arena::heap();
    let fs = [BuiltInFunction::Sum, BuiltInFunction::Prod, BuiltInFunction::Avg, BuiltInFunction::Min, BuiltInFunction::Max, BuiltInFunction::Median];
    let mut i = 0;
    while i < 6 {
        let r1 = ok(call_bi(fs[i], av![l], &heap));
        let r2 = ok(call_bi(fs[i], av![n(a)], &heap));
        assert!(same_value(r1, r2));
        assert!(eqnum(r1, a));
        i += 1;
    }
    kani::cover!(true, "reach-end");
    std::mem::forget(heap);
});

// percentile: an element of the list, p=0 -> min, p=100 -> max, non-decreasing in p
kproof!(noerr, 7, fn c15_q_percentile3() {
    let (a, b, c): (f64, f64, f64) = (kani::any(), kani::any(), kani::any());
    kani::assume(no_nan(a, b, c));
    let p: f64 = kani::any();
    let q: f64 = kani::any();
    kani::assume(p >= 0.0 && p <= q && q <= 100.0);
    let l = arena::list_cell(vec![n(a), n(b), n(c)]);
    let heap = arena::heap();
    let rp = ok(call_bi(BuiltInFunction::Percentile, av![l, n(p)], &heap));
    let rq = ok(call_bi(BuiltInFunction::Percentile, av![l, n(q)], &heap));
    let r0 = ok(call_bi(BuiltInFunction::Percentile, av![l, n(0.0)], &heap));
    let r100 = ok(call_bi(BuiltInFunction::Percentile, av![l, n(100.0)], &heap));
    match (rp, rq) {
        (Value::Number(x), Value::Number(y)) => {
            assert!(x == a || x == b || x == c);
            assert!(x <= y);
        }
        _ => panic!("percentile: not a number"),
    }
    assert!(eqnum(r0, min3(a, b, c)));
    assert!(eqnum(r100, max3(a, b, c)));
    kani::cover!(p == 50.0, "reach p = 50");
    std::mem::forget(heap);
});
kproof!(noerr, 7, fn c15_q_percentile4_is_element() {
    let (a, b, c, d): (f64, f64, f64, f64) = (kani::any(), kani::any(), kani::any(), kani::any());
    kani::assume(no_nan(a, b, c) && !d.is_nan());
    let p: f64 = kani::any();
    kani::assume(p >= 0.0 && p <= 100.0);
    let l = arena::list_cell(vec![n(a), n(b), n(c), n(d)]);
    let heap = arena::heap();
    match ok(call_bi(BuiltInFunction::Percentile, av![l, n(p)], &heap)) {
        Value::Number(x) => assert!(x == a || x == b || x == c || x == d),
        _ => panic!("percentile: not a number"),
    }
    kani::cover!(p == 50.0, "reach p = 50 on an even length");
    std::mem::forget(heap);
});

// four numbers (even length): median is the mean of the two middle order statistics, min / max
// bound every element and are elements; list and varargs conventions agree bit for bit
kproof!(noerr, 8, fn c15_t_median4_min4_max4() {
    let (a, b, c, d): (f64, f64, f64, f64) = (any_f64_m(6), any_f64_m(6), any_f64_m(6), any_f64_m(6));
    kani::assume(no_nan(a, b, c) && !d.is_nan());
    let l = arena::list_cell(vec![n(a), n(b), n(c), n(d)]);
    let heap = arena::heap();
    let m1 = ok(call_bi(BuiltInFunction::Median, av![l], &heap));
    let m2 = ok(call_bi(BuiltInFunction::Median, av![n(a), n(b), n(c), n(d)], &heap));
    assert!(same_value(m1, m2));
    let mn = ok(call_bi(BuiltInFunction::Min, av![l], &heap));
    let mx = ok(call_bi(BuiltInFunction::Max, av![l], &heap));
    let mn2 = ok(call_bi(BuiltInFunction::Min, av![n(a), n(b), n(c), n(d)], &heap));
    let mx2 = ok(call_bi(BuiltInFunction::Max, av![n(a), n(b), n(c), n(d)], &heap));
    assert!(same_value(mn, mn2) && same_value(mx, mx2));
    // sorting network reference for the order statistics
    let (lo1, hi1) = if a <= b { (a, b) } else { (b, a) };
    let (lo2, hi2) = if c <= d { (c, d) } else { (d, c) };
    let lo = if lo1 <= lo2 { lo1 } else { lo2 };
    let hi = if hi1 >= hi2 { hi1 } else { hi2 };
    let mid_a = if lo1 <= lo2 { lo2 } else { lo1 };
    let mid_b = if hi1 >= hi2 { hi2 } else { hi1 };
    assert!(eqnum(mn, lo) && eqnum(mx, hi));
    assert!(eqnum(m1, (mid_a + mid_b) / 2.0));
    kani::cover!(a > b && b > c && c > d, "reach a strictly decreasing list");
    std::mem::forget(heap);
});
