//! C02 (purity clauses): built-ins never modify their argument and only append to the heap;
//! evaluating / calling twice gives identical results; random(seed) is a function of its seed.
use crate::av;
use crate::c14::call_bi;
use crate::kproof;
use crate::util::*;
use blots_core::ast::*;
use blots_core::expressions::evaluate_ast;
use blots_core::functions::BuiltInFunction as B;
use blots_core::values::*;

fn n(x: f64) -> Value {
    Value::Number(x)
}
fn results_same(r1: &Result<Value, blots_core::error::RuntimeError>, r2: &Result<Value, blots_core::error::RuntimeError>, heap: &std::rc::Rc<std::cell::RefCell<blots_core::heap::Heap>>) -> bool {
    match (r1, r2) {
        (Ok(v1), Ok(v2)) => match (read_list(*v1, heap), read_list(*v2, heap)) {
            (Some((k1, e1)), Some((k2, e2))) => k1 == k2 && (k1 < 1 || same_value_shallow(e1[0], e2[0])) && (k1 < 2 || same_value_shallow(e1[1], e2[1])) && (k1 < 3 || same_value_shallow(e1[2], e2[2])),
            (None, None) => same_value(*v1, *v2),
            _ => false,
        },
        (Err(_), Err(_)) => true,
        _ => false,
    }
}
/// scalars compared bitwise; heap values (fresh cells on every call) by kind only
fn same_value_shallow(x: Value, y: Value) -> bool {
    match (x, y) {
        (Value::List(_), Value::List(_)) | (Value::String(_), Value::String(_)) => true,
        _ => same_value(x, y),
    }
}

/// a list built-in called twice on [a, b, c]: the argument cell is bit-identical afterwards, the
/// heap only grew, and both calls return the same value / status
macro_rules! c02_pure {
    ($name:ident, $f:expr) => {
        kproof!(cut, 7, fn $name() {
            let (a, b, c): (f64, f64, f64) = (kani::any(), kani::any(), kani::any());
            kani::assume(!a.is_nan() && !b.is_nan() && !c.is_nan());
            let l = arena::list_cell(vec![n(a), n(b), n(c)]);
            let heap = arena::heap();
            let len0 = heap.borrow().verif_len();
            kani::cover!(a > b && b > c, "reach an unsorted list");
            let r1 = call_bi($f, av![l], &heap);
            let len1 = heap.borrow().verif_len();
            // the argument is observed after *each* call (two in-place reversals cancel out), and
            // the first result is snapshotted so that the second call cannot change it either
            match read_list(l, &heap) {
                Some((3, el)) => assert!(same_value(el[0], n(a)) && same_value(el[1], n(b)) && same_value(el[2], n(c))),
                _ => panic!("argument list changed shape after the first call"),
            }
            let snap1 = match &r1 {
                Ok(v) => read_list(*v, &heap),
                Err(_) => None,
            };
            let r2 = call_bi($f, av![l], &heap);
            assert!(len1 >= len0 && heap.borrow().verif_len() >= len1);
            match read_list(l, &heap) {
                Some((3, el)) => assert!(same_value(el[0], n(a)) && same_value(el[1], n(b)) && same_value(el[2], n(c))),
                _ => panic!("argument list changed shape"),
            }
            assert!(results_same(&r1, &r2, &heap));
            if let (Some((k, before)), Ok(v)) = (snap1, &r1) {
                match read_list(*v, &heap) {
                    Some((k2, after)) => assert!(k == k2 && (k < 1 || same_value_shallow(before[0], after[0])) && (k < 2 || same_value_shallow(before[1], after[1])) && (k < 3 || same_value_shallow(before[2], after[2]))),
                    None => panic!("first result changed kind during the second call"),
                }
            }
            std::mem::forget(heap);
        });
    };
}
c02_pure!(c02_q_sort_pure_and_repeatable, B::Sort);
c02_pure!(c02_q_reverse_pure_and_repeatable, B::Reverse);
c02_pure!(c02_t_unique_pure_and_repeatable, B::Unique);
c02_pure!(c02_t_tail_pure_and_repeatable, B::Tail);
c02_pure!(c02_t_median_pure_and_repeatable, B::Median);
c02_pure!(c02_t_max_pure_and_repeatable, B::Max);
c02_pure!(c02_t_flatten_pure_and_repeatable, B::Flatten);

/// random(seed) twice: identical
kproof!(noerr, 4, fn c02_q_random_is_a_function_of_its_seed() {
    let s: f64 = kani::any();
    // two copies of fastrand's 64x64->128 multiply must be proved equal: the seed keeps 8 bits
    kani::assume(s >= 0.0 && s < 256.0 && s == (s as u8) as f64);
    let heap = arena::heap();
    let r1 = ok(call_bi(B::Random, av![n(s)], &heap));
    let r2 = ok(call_bi(B::Random, av![n(s)], &heap));
    assert!(same_value(r1, r2));
    match r1 {
        Value::Number(x) => assert!(x >= 0.0 && x < 1.0),
        _ => panic!("random: not a number"),
    }
    kani::cover!(true, "reach-end");
    std::mem::forget(heap);
});

/// evaluating the same expression twice on the same heap gives equal results
kproof!(noerr_nocall, 4, fn c02_q_evaluate_twice_same_result() {
    let (a, b, s): (f64, f64, f64) = (kani::any(), kani::any(), kani::any());
    let e = arena::binop(BinaryOp::Subtract, arena::list2(num(a), num(b)), num(s));
    let heap = arena::heap();
    let r1 = evaluate_ast(&e, heap.clone(), arena::env(), 0, src());
    let r2 = evaluate_ast(&e, heap.clone(), arena::env(), 0, src());
    assert!(results_same(&r1, &r2, &heap));
    assert!(r1.is_ok());
    kani::cover!(true, "reach-end");
    std::mem::forget(e);
    std::mem::forget(heap);
});

/// results depend on the heap the call is made on, not on unrelated earlier evaluations: the same
/// aggregate on a second, fresh heap whose cell 0 holds a different list
macro_rules! c02_two_heaps {
    ($name:ident, $f:expr, $reference:expr) => {
        kproof!(noerr, 7, fn $name() {
            let (a, b, c): (f64, f64, f64) = (kani::any(), kani::any(), kani::any());
            let (d, e, g): (f64, f64, f64) = (kani::any(), kani::any(), kani::any());
            kani::assume(!a.is_nan() && !b.is_nan() && !c.is_nan() && !d.is_nan() && !e.is_nan() && !g.is_nan());
            let l = arena::list_cell(vec![n(a), n(b), n(c)]);
            let heap1 = arena::heap();
            let reference: fn(f64, f64, f64) -> f64 = $reference;
            let r1 = ok(call_bi($f, av![l], &heap1));
            assert!(matches!(r1, Value::Number(x) if x == reference(a, b, c)));
            // a second, independent heap: its cell 0 is a different list
            let heap2 = arena::second_heap_with_list(vec![n(d), n(e), n(g)]);
            let r2 = ok(call_bi($f, av![Value::List(blots_core::heap::ListPointer::new(0))], &heap2));
            assert!(matches!(r2, Value::Number(x) if x == reference(d, e, g)));
            kani::cover!(true, "reach-end");
            std::mem::forget((heap1, heap2));
        });
    };
}
fn med3(a: f64, b: f64, c: f64) -> f64 {
    if (a <= b && b <= c) || (c <= b && b <= a) { b } else if (b <= a && a <= c) || (c <= a && a <= b) { a } else { c }
}
fn max3(a: f64, b: f64, c: f64) -> f64 {
    let m = if b > a { b } else { a };
    if c > m { c } else { m }
}
c02_two_heaps!(c02_q_median_two_heaps_independent, B::Median, med3);
c02_two_heaps!(c02_t_max_two_heaps_independent, B::Max, max3);
