//! Builders, typed static arena, stubs and the `kproof!` macro shared by all harnesses.
//!
//! Everything in this file is part of the trusted base of every check and is listed in the
//! evidence files (`assumptions`).
use blots_core::ast::*;
use blots_core::environment::Environment;
use blots_core::heap::*;
use blots_core::values::*;
use std::cell::RefCell;
use std::rc::Rc;

pub fn sp(e: Expr) -> SpannedExpr {
    Spanned::dummy(e)
}
pub fn num(x: f64) -> Expr {
    Expr::Number(x)
}
pub fn src() -> Rc<str> {
    Rc::from("")
}
/// bit-identical, all NaNs identified (the language has one NaN as far as a user can observe)
pub fn same(x: f64, y: f64) -> bool {
    x.to_bits() == y.to_bits() || (x.is_nan() && y.is_nan())
}
pub fn same_value(x: Value, y: Value) -> bool {
    match (x, y) {
        (Value::Number(a), Value::Number(b)) => same(a, b),
        (Value::Bool(a), Value::Bool(b)) => a == b,
        (Value::Null, Value::Null) => true,
        (Value::List(a), Value::List(b)) => a.index() == b.index(),
        (Value::String(a), Value::String(b)) => a.index() == b.index(),
        (Value::Lambda(a), Value::Lambda(b)) => a.index() == b.index(),
        (Value::Record(a), Value::Record(b)) => a.index() == b.index(),
        (Value::BuiltIn(a), Value::BuiltIn(b)) => a == b,
        _ => false,
    }
}

pub const ALL_BINOPS: [BinaryOp; 26] = [
    BinaryOp::Add,
    BinaryOp::Subtract,
    BinaryOp::Multiply,
    BinaryOp::Divide,
    BinaryOp::Modulo,
    BinaryOp::Power,
    BinaryOp::Equal,
    BinaryOp::NotEqual,
    BinaryOp::Less,
    BinaryOp::LessEq,
    BinaryOp::Greater,
    BinaryOp::GreaterEq,
    BinaryOp::DotEqual,
    BinaryOp::DotNotEqual,
    BinaryOp::DotLess,
    BinaryOp::DotLessEq,
    BinaryOp::DotGreater,
    BinaryOp::DotGreaterEq,
    BinaryOp::And,
    BinaryOp::NaturalAnd,
    BinaryOp::Or,
    BinaryOp::NaturalOr,
    BinaryOp::Via,
    BinaryOp::Into,
    BinaryOp::Where,
    BinaryOp::Coalesce,
];

#[cfg(kani)]
pub fn any_binop() -> BinaryOp {
    let i: usize = kani::any();
    kani::assume(i < 26);
    ALL_BINOPS[i]
}

// ---- stubs (every one is part of the claim; listed in evidence.assumptions) -----------------
pub fn stub_random_state_new() -> std::hash::RandomState {
    unsafe { std::mem::transmute((1u64, 2u64)) }
}
pub fn stub_backtrace_capture() -> std::backtrace::Backtrace {
    std::backtrace::Backtrace::disabled()
}
pub fn stub_format(_args: std::fmt::Arguments<'_>) -> String {
    String::new()
}
/// `anyhow::Error::msg` replaced by a *cut with a safety net*: reaching it is reported as a
/// failed check (so a harness that claims "no type error here" is refuted if one is built),
/// and the path ends there.
pub fn stub_anyhow_msg_panic<M>(_m: M) -> anyhow::Error
where
    M: std::fmt::Display + std::fmt::Debug + Send + Sync + 'static,
{
    panic!("verif-cut: anyhow error constructed")
}
pub fn stub_anyhow_format_err_panic(_a: std::fmt::Arguments<'_>) -> anyhow::Error {
    panic!("verif-cut: anyhow error constructed")
}
/// Same, but silently ends the path: used by harnesses that *expect* an error (every surviving
/// path must have returned `Err` through a non-anyhow route) and by panic-freedom harnesses
/// (what happens after an error value has been built is propagation with `?`).
#[cfg(kani)]
pub fn stub_anyhow_msg_cut<M>(_m: M) -> anyhow::Error
where
    M: std::fmt::Display + std::fmt::Debug + Send + Sync + 'static,
{
    kani::assume(false);
    unreachable!()
}
#[cfg(kani)]
pub fn stub_anyhow_format_err_cut(_a: std::fmt::Arguments<'_>) -> anyhow::Error {
    kani::assume(false);
    unreachable!()
}
/// `alloc::alloc::dealloc` as a no-op: harness-built vectors live in typed statics and must not be
/// handed to free(); blots-core is safe Rust and never frees manually, so nothing is lost.
pub unsafe fn stub_dealloc(_ptr: *mut u8, _layout: std::alloc::Layout) {}
pub unsafe fn stub_dealloc_nonnull(_ptr: std::ptr::NonNull<u8>, _layout: std::alloc::Layout) {}
/// realloc = allocate + copy, never free (the old block may be a typed static)
pub unsafe fn stub_realloc(ptr: *mut u8, layout: std::alloc::Layout, new_size: usize) -> *mut u8 {
    unsafe {
        let new = std::alloc::alloc(std::alloc::Layout::from_size_align_unchecked(new_size, layout.align()));
        let n = if layout.size() < new_size { layout.size() } else { new_size };
        if n > 0 {
            std::ptr::copy_nonoverlapping(ptr, new, n);
        }
        new
    }
}
pub unsafe fn stub_realloc_nonnull(ptr: std::ptr::NonNull<u8>, layout: std::alloc::Layout, new_size: usize) -> *mut u8 {
    unsafe { stub_realloc(ptr.as_ptr(), layout, new_size) }
}

/// `std::sync::Mutex::lock` without the contended path: the evaluator's only mutex is the
/// call-statistics log and the harnesses are single-threaded, so the lock is always free.
pub fn stub_mutex_lock<T>(m: &std::sync::Mutex<T>) -> std::sync::LockResult<std::sync::MutexGuard<'_, T>> {
    match m.try_lock() {
        Ok(g) => Ok(g),
        Err(std::sync::TryLockError::Poisoned(p)) => Err(p),
        Err(std::sync::TryLockError::WouldBlock) => {
            #[cfg(kani)]
            kani::assume(false);
            unreachable!()
        }
    }
}

/// `std::time::Instant::now` (clock_gettime FFI): an arbitrary instant. The evaluator only
/// stores it in the call-statistics log.
pub fn stub_instant_now() -> std::time::Instant {
    unsafe { std::mem::transmute((0u64, 0u32, 0u32)) }
}

/// `Value::stringify` (the worker behind stringify_internal / _external / _for_display: float ->
/// text, lambda -> source text) produces an empty string: text is never the subject of a harness
/// that uses this stub (error messages, to_string / format results are unconstrained).
pub fn stub_stringify(_v: &Value, _heap: &Heap, _wrap_strings: bool, _display_format: bool) -> String {
    String::new()
}
/// `units::convert` cut with a safety net (unit conversion is decided by engine E2, C17)
pub fn stub_units_convert(_value: f64, _from: &str, _to: &str) -> anyhow::Result<f64> {
    panic!("verif-cut: units::convert reached")
}

/// `FunctionDef::call` cut with a safety net, for harness families whose ASTs contain no call,
/// via, into or where: removes the whole built-in library from the reachable code.
pub fn stub_function_def_call(
    _this: &blots_core::functions::FunctionDef,
    _this_value: Value,
    _args: Vec<Value>,
    _heap: Rc<RefCell<Heap>>,
    _bindings: Rc<Environment>,
    _call_depth: usize,
    _source: &str,
) -> Result<Value, blots_core::error::RuntimeError> {
    panic!("verif-cut: FunctionDef::call reached in a harness that declares no calls")
}

/// Attach the standard attribute set to a harness.
///   kproof!(noerr, <unwind>, fn name() { ... });   anyhow error construction = failed check
///   kproof!(cut,   <unwind>, fn name() { ... });   anyhow error construction = end of path
///   kproof!(plain, <unwind>, fn name() { ... });   no anyhow stub (kernels that cannot err)
#[macro_export]
macro_rules! kproof {
    (noerr, $unwind:literal, fn $name:ident() $body:block) => {
        #[cfg(kani)]
        #[kani::proof]
        #[kani::unwind($unwind)]
        #[kani::stub(std::hash::RandomState::new, crate::util::stub_random_state_new)]
        #[kani::stub(alloc::alloc::dealloc, crate::util::stub_dealloc)]
        #[kani::stub(alloc::alloc::dealloc_nonnull, crate::util::stub_dealloc_nonnull)]
        #[kani::stub(alloc::alloc::realloc, crate::util::stub_realloc)]
        #[kani::stub(alloc::alloc::realloc_nonnull, crate::util::stub_realloc_nonnull)]
        #[kani::stub(std::backtrace::Backtrace::capture, crate::util::stub_backtrace_capture)]
        #[kani::stub(alloc::fmt::format, crate::util::stub_format)]
        #[kani::stub(std::time::Instant::now, crate::util::stub_instant_now)]
        #[kani::stub(std::sync::Mutex::lock, crate::util::stub_mutex_lock)]
        #[kani::stub(blots_core::values::Value::stringify, crate::util::stub_stringify)]
        #[kani::stub(blots_core::units::convert, crate::util::stub_units_convert)]
        #[kani::stub(::anyhow::Error::msg, crate::util::stub_anyhow_msg_panic)]
        #[kani::stub(::anyhow::__private::format_err, crate::util::stub_anyhow_format_err_panic)]
        pub fn $name() $body
    };
    (cut, $unwind:literal, fn $name:ident() $body:block) => {
        #[cfg(kani)]
        #[kani::proof]
        #[kani::unwind($unwind)]
        #[kani::stub(std::hash::RandomState::new, crate::util::stub_random_state_new)]
        #[kani::stub(alloc::alloc::dealloc, crate::util::stub_dealloc)]
        #[kani::stub(alloc::alloc::dealloc_nonnull, crate::util::stub_dealloc_nonnull)]
        #[kani::stub(alloc::alloc::realloc, crate::util::stub_realloc)]
        #[kani::stub(alloc::alloc::realloc_nonnull, crate::util::stub_realloc_nonnull)]
        #[kani::stub(std::backtrace::Backtrace::capture, crate::util::stub_backtrace_capture)]
        #[kani::stub(alloc::fmt::format, crate::util::stub_format)]
        #[kani::stub(std::time::Instant::now, crate::util::stub_instant_now)]
        #[kani::stub(std::sync::Mutex::lock, crate::util::stub_mutex_lock)]
        #[kani::stub(blots_core::values::Value::stringify, crate::util::stub_stringify)]
        #[kani::stub(blots_core::units::convert, crate::util::stub_units_convert)]
        #[kani::stub(::anyhow::Error::msg, crate::util::stub_anyhow_msg_cut)]
        #[kani::stub(::anyhow::__private::format_err, crate::util::stub_anyhow_format_err_cut)]
        pub fn $name() $body
    };
    (noerr_nocall, $unwind:literal, fn $name:ident() $body:block) => {
        #[cfg(kani)]
        #[kani::proof]
        #[kani::unwind($unwind)]
        #[kani::stub(std::hash::RandomState::new, crate::util::stub_random_state_new)]
        #[kani::stub(alloc::alloc::dealloc, crate::util::stub_dealloc)]
        #[kani::stub(alloc::alloc::dealloc_nonnull, crate::util::stub_dealloc_nonnull)]
        #[kani::stub(alloc::alloc::realloc, crate::util::stub_realloc)]
        #[kani::stub(alloc::alloc::realloc_nonnull, crate::util::stub_realloc_nonnull)]
        #[kani::stub(std::backtrace::Backtrace::capture, crate::util::stub_backtrace_capture)]
        #[kani::stub(alloc::fmt::format, crate::util::stub_format)]
        #[kani::stub(std::time::Instant::now, crate::util::stub_instant_now)]
        #[kani::stub(std::sync::Mutex::lock, crate::util::stub_mutex_lock)]
        #[kani::stub(blots_core::values::Value::stringify, crate::util::stub_stringify)]
        #[kani::stub(blots_core::units::convert, crate::util::stub_units_convert)]
        #[kani::stub(::anyhow::Error::msg, crate::util::stub_anyhow_msg_panic)]
        #[kani::stub(::anyhow::__private::format_err, crate::util::stub_anyhow_format_err_panic)]
        #[kani::stub(blots_core::functions::FunctionDef::call, crate::util::stub_function_def_call)]
        pub fn $name() $body
    };
    (cut_nocall, $unwind:literal, fn $name:ident() $body:block) => {
        #[cfg(kani)]
        #[kani::proof]
        #[kani::unwind($unwind)]
        #[kani::stub(std::hash::RandomState::new, crate::util::stub_random_state_new)]
        #[kani::stub(alloc::alloc::dealloc, crate::util::stub_dealloc)]
        #[kani::stub(alloc::alloc::dealloc_nonnull, crate::util::stub_dealloc_nonnull)]
        #[kani::stub(alloc::alloc::realloc, crate::util::stub_realloc)]
        #[kani::stub(alloc::alloc::realloc_nonnull, crate::util::stub_realloc_nonnull)]
        #[kani::stub(std::backtrace::Backtrace::capture, crate::util::stub_backtrace_capture)]
        #[kani::stub(alloc::fmt::format, crate::util::stub_format)]
        #[kani::stub(std::time::Instant::now, crate::util::stub_instant_now)]
        #[kani::stub(std::sync::Mutex::lock, crate::util::stub_mutex_lock)]
        #[kani::stub(blots_core::values::Value::stringify, crate::util::stub_stringify)]
        #[kani::stub(blots_core::units::convert, crate::util::stub_units_convert)]
        #[kani::stub(::anyhow::Error::msg, crate::util::stub_anyhow_msg_cut)]
        #[kani::stub(::anyhow::__private::format_err, crate::util::stub_anyhow_format_err_cut)]
        #[kani::stub(blots_core::functions::FunctionDef::call, crate::util::stub_function_def_call)]
        pub fn $name() $body
    };
    (plain, $unwind:literal, fn $name:ident() $body:block) => {
        #[cfg(kani)]
        #[kani::proof]
        #[kani::unwind($unwind)]
        #[kani::stub(std::hash::RandomState::new, crate::util::stub_random_state_new)]
        #[kani::stub(alloc::alloc::dealloc, crate::util::stub_dealloc)]
        #[kani::stub(alloc::alloc::dealloc_nonnull, crate::util::stub_dealloc_nonnull)]
        #[kani::stub(alloc::alloc::realloc, crate::util::stub_realloc)]
        #[kani::stub(alloc::alloc::realloc_nonnull, crate::util::stub_realloc_nonnull)]
        #[kani::stub(std::backtrace::Backtrace::capture, crate::util::stub_backtrace_capture)]
        pub fn $name() $body
    };
}

/// set by the generated native replay tests: the arena then allocates normally (Box/Vec/Rc),
/// because natively a Box over a static would be freed on unwind.  Never written under Kani,
/// so it is the constant `false` for symbolic execution.
pub static mut NATIVE_REPLAY: u32 = 0x4e41_5430; // 'NAT0' = symbolic execution, 'NAT1' = native replay (never all-zero, see arena)
pub fn native() -> bool {
    unsafe { NATIVE_REPLAY == 0x4e41_5431 }
}

// ---- typed static arena -------------------------------------------------------------------
// CBMC types a malloc'ed object as a byte array; a pointer stored inside it (Vec buffer pointer
// inside a heap cell, Box child inside an AST node) is split into bytes and is no longer a
// constant for symbolic execution, so every enum read through it has an unknown tag and all
// match arms get explored.  Objects that contain pointers and are built by the harness are
// therefore placed in *typed statics*; values allocated by the code under test stay on the
// ordinary heap model.
pub mod arena {
    use super::*;
    use std::cell::Cell;

    const DSPAN: Span = Span { start_byte: 0, end_byte: 0, start_line: 1, start_col: 1 };
    pub const N_NODES: usize = 40;
    pub const N_CNODES: usize = 40;
    pub const N_CELLS: usize = 12;
    static mut NODES: [SpannedExpr; N_NODES] = [const { Spanned { node: Expr::Null, span: DSPAN } }; N_NODES];
    // NOTE: the counters start at distinctive non-zero values.  Kani's codegen maps a constant
    // allocation (e.g. alloc::raw_vec's ZERO_CAP = 8 zero bytes, read by every Vec::new()) to *some*
    // symbol with identical initial bytes - measured: it picked a zero-initialised `static mut`
    // counter of this module, so every fresh Vec had capacity NODES_NEXT.  No mutable static of
    // the harness crate may therefore start as all-zero bytes.
    const M_NODES: usize = 0x4e4f_4445_5f4e_0000;
    const M_CNODES: usize = 0x434e_4f44_455f_0000;
    const M_CELLS: usize = 0x4345_4c4c_535f_0000;
    static mut NODES_NEXT: usize = M_NODES;
    static mut CNODES: [Commented<SpannedExpr>; N_CNODES] = [const {
        Commented { leading: Vec::new(), node: Spanned { node: Expr::Null, span: DSPAN }, trailing: None }
    }; N_CNODES];
    static mut CNODES_NEXT: usize = M_CNODES;
    static mut CELLS: [HeapValue; N_CELLS] = [const { HeapValue::List(Vec::new()) }; N_CELLS];
    static mut CELLS_NEXT: usize = M_CELLS;

    /// same layout as alloc::rc::RcInner (repr(C): strong, weak, value)
    #[repr(C)]
    pub struct RcBoxLike<T> {
        strong: Cell<usize>,
        weak: Cell<usize>,
        value: T,
    }
    static mut HEAP_RC: RcBoxLike<RefCell<Heap>> = RcBoxLike {
        strong: Cell::new(1),
        weak: Cell::new(1),
        value: RefCell::new(Heap::verif_from_values(Vec::new())),
    };

    fn check(ok: bool, _msg: &'static str) {
        #[cfg(kani)]
        {
            kani::assert(ok, "arena capacity exceeded (harness bug)");
            kani::assume(ok);
        }
        #[cfg(not(kani))]
        assert!(ok, "{}", _msg);
    }

    /// Box pointing at a typed static node (never dropped: callers forget the tree).
    pub fn bx(e: Expr) -> Box<SpannedExpr> {
        if native() {
            return Box::new(Spanned { node: e, span: DSPAN });
        }
        unsafe {
            let i = NODES_NEXT - M_NODES;
            check(i < N_NODES, "arena: out of AST nodes");
            NODES_NEXT = M_NODES + i + 1;
            let p = (&raw mut NODES as *mut SpannedExpr).add(i);
            std::ptr::write(p, Spanned { node: e, span: DSPAN });
            Box::from_raw(p)
        }
    }
    /// Box<Commented<SpannedExpr>> over a typed static list-element node (do-block return expression)
    pub fn cbx(e: Expr) -> Box<Commented<SpannedExpr>> {
        if native() {
            return Box::new(Commented::new(Spanned { node: e, span: DSPAN }));
        }
        unsafe {
            let i = CNODES_NEXT - M_CNODES;
            check(i < N_CNODES, "arena: out of list-element nodes");
            CNODES_NEXT = M_CNODES + i + 1;
            let p = (&raw mut CNODES as *mut Commented<SpannedExpr>).add(i);
            std::ptr::write(p, Commented::new(Spanned { node: e, span: DSPAN }));
            Box::from_raw(p)
        }
    }
    pub fn binop(op: BinaryOp, l: Expr, r: Expr) -> SpannedExpr {
        sp(Expr::BinaryOp { op, left: bx(l), right: bx(r) })
    }
    pub fn binop_e(op: BinaryOp, l: Expr, r: Expr) -> Expr {
        Expr::BinaryOp { op, left: bx(l), right: bx(r) }
    }
    /// list literal with 1..=3 elements whose element buffer is a typed static (capacity == len)
    pub fn list1(a: Expr) -> Expr {
        list_n(Some(a), None, None)
    }
    pub fn list2(a: Expr, b: Expr) -> Expr {
        list_n(Some(a), Some(b), None)
    }
    pub fn list3(a: Expr, b: Expr, c: Expr) -> Expr {
        list_n(Some(a), Some(b), Some(c))
    }
    pub fn list0() -> Expr {
        Expr::List(Vec::new())
    }
    fn list_n(a: Option<Expr>, b: Option<Expr>, c: Option<Expr>) -> Expr {
        if native() {
            let mut v = Vec::new();
            for e in [a, b, c].into_iter().flatten() {
                v.push(Commented::new(Spanned { node: e, span: DSPAN }));
            }
            return Expr::List(v);
        }
        unsafe {
            let start = CNODES_NEXT - M_CNODES;
            check(start + 3 <= N_CNODES, "arena: out of list-element nodes");
            let base = (&raw mut CNODES as *mut Commented<SpannedExpr>).add(start);
            let mut n = 0;
            if let Some(e) = a {
                std::ptr::write(base.add(n), Commented::new(Spanned { node: e, span: DSPAN }));
                n += 1;
            }
            if let Some(e) = b {
                std::ptr::write(base.add(n), Commented::new(Spanned { node: e, span: DSPAN }));
                n += 1;
            }
            if let Some(e) = c {
                std::ptr::write(base.add(n), Commented::new(Spanned { node: e, span: DSPAN }));
                n += 1;
            }
            check(start + n <= N_CNODES, "arena: out of list-element nodes");
            CNODES_NEXT = M_CNODES + start + n;
            Expr::List(Vec::from_raw_parts(base, n, n))
        }
    }
    /// argument vector of a call (Vec<SpannedExpr>) over typed static nodes
    pub fn args1(a: Expr) -> Vec<SpannedExpr> {
        args_n(Some(a), None, None)
    }
    pub fn args2(a: Expr, b: Expr) -> Vec<SpannedExpr> {
        args_n(Some(a), Some(b), None)
    }
    pub fn args3(a: Expr, b: Expr, c: Expr) -> Vec<SpannedExpr> {
        args_n(Some(a), Some(b), Some(c))
    }
    fn args_n(a: Option<Expr>, b: Option<Expr>, c: Option<Expr>) -> Vec<SpannedExpr> {
        if native() {
            let mut v = Vec::new();
            for e in [a, b, c].into_iter().flatten() {
                v.push(Spanned { node: e, span: DSPAN });
            }
            return v;
        }
        unsafe {
            let start = NODES_NEXT - M_NODES;
            check(start + 3 <= N_NODES, "arena: out of AST nodes");
            let base = (&raw mut NODES as *mut SpannedExpr).add(start);
            let mut n = 0;
            if let Some(e) = a {
                std::ptr::write(base.add(n), Spanned { node: e, span: DSPAN });
                n += 1;
            }
            if let Some(e) = b {
                std::ptr::write(base.add(n), Spanned { node: e, span: DSPAN });
                n += 1;
            }
            if let Some(e) = c {
                std::ptr::write(base.add(n), Spanned { node: e, span: DSPAN });
                n += 1;
            }
            check(start + n <= N_NODES, "arena: out of AST nodes");
            NODES_NEXT = M_NODES + start + n;
            Vec::from_raw_parts(base, n, n)
        }
    }
    pub fn call(f: Expr, args: Vec<SpannedExpr>) -> SpannedExpr {
        sp(call_e(f, args))
    }
    /// `Expr::Call { func, args }`.  Kani 0.68 mis-models the *aggregate construction* of this one
    /// variant (probes::m99b_expr_variant_layout: `func` read back from a freshly built
    /// `Expr::Call { .. }` is a misaligned non-pointer; every other variant is fine, and field
    /// projections - all the evaluator uses - are consistent with each other).  The node is
    /// therefore built from a dummy aggregate whose two fields are then written through
    /// projections; natively this is an ordinary overwrite (the dummy is empty / leaked).
    pub fn call_e(f: Expr, args: Vec<SpannedExpr>) -> Expr {
        let func = bx(f);
        let mut e = Expr::Call { func: bx(Expr::Null), args: Vec::new() };
        if let Expr::Call { func: fslot, args: aslot } = &mut e {
            unsafe {
                std::ptr::write(fslot, func);
                std::ptr::write(aslot, args);
            }
        }
        e
    }

    /// argument vector / list buffer (Vec<Value>) on the ordinary heap, written **word by word**:
    /// under `verif-hooks` `Value` is `#[repr(u64)]` (tag word, then the payload as a repr(C)
    /// struct), so tag and payload can be stored as separate u64 constants.  A whole-`Value` store
    /// into a malloc'ed byte buffer keeps the tag precise but turns payloads that are heap indices
    /// (lists, strings) into non-constants for symbolic execution (they are union members).
    /// `c00_q_value_word_layout` checks the layout assumption on every run.
    pub fn vals(items: [Option<Value>; 4]) -> Vec<Value> {
        let n = items[0].is_some() as usize + items[1].is_some() as usize + items[2].is_some() as usize + items[3].is_some() as usize;
        if n == 0 {
            return Vec::new();
        }
        if native() {
            return items.into_iter().flatten().collect();
        }
        let mut v: Vec<Value> = Vec::with_capacity(n);
        unsafe {
            let base = v.as_mut_ptr() as *mut u64;
            let mut k = 0;
            if let Some(x) = items[0] {
                write_words(base.add(3 * k), x);
                k += 1;
            }
            if let Some(x) = items[1] {
                write_words(base.add(3 * k), x);
                k += 1;
            }
            if let Some(x) = items[2] {
                write_words(base.add(3 * k), x);
                k += 1;
            }
            if let Some(x) = items[3] {
                write_words(base.add(3 * k), x);
                k += 1;
            }
            v.set_len(n);
        }
        v
    }
    /// store `x` as (tag, payload, payload2) words; falls back to a whole-value store for the
    /// variants harnesses do not pass by index
    pub unsafe fn write_words(p: *mut u64, x: Value) {
        unsafe {
            match x {
                Value::Number(f) => {
                    *p = 0;
                    *p.add(1) = f.to_bits();
                }
                Value::Null => {
                    *p = 2;
                }
                Value::List(l) => {
                    *p = 3;
                    *p.add(1) = l.index() as u64;
                }
                Value::String(l) => {
                    *p = 4;
                    *p.add(1) = l.index() as u64;
                }
                Value::Lambda(l) => {
                    *p = 6;
                    *p.add(1) = l.index() as u64;
                }
                Value::BuiltIn(b) => {
                    *p = 8;
                    *p.add(1) = b as u64;
                }
                other => std::ptr::write(p as *mut Value, other),
            }
        }
    }
    pub fn vals0() -> Vec<Value> {
        vals([None, None, None, None])
    }
    pub fn vals1(a: Value) -> Vec<Value> {
        vals([Some(a), None, None, None])
    }
    pub fn vals2(a: Value, b: Value) -> Vec<Value> {
        vals([Some(a), Some(b), None, None])
    }
    pub fn vals3(a: Value, b: Value, c: Value) -> Vec<Value> {
        vals([Some(a), Some(b), Some(c), None])
    }
    pub fn vals4(a: Value, b: Value, c: Value, d: Value) -> Vec<Value> {
        vals([Some(a), Some(b), Some(c), Some(d)])
    }

    /// put one heap cell into the typed static cell buffer (call before `heap()`); returns its
    /// index.  The cell is passed by value (a typed local), never through a malloc'ed container.
    static mut NATIVE_CELLS: Vec<HeapValue> = Vec::new();
    pub fn cell(c: HeapValue) -> usize {
        if native() {
            unsafe {
                NATIVE_CELLS.push(c);
                return NATIVE_CELLS.len() - 1;
            }
        }
        unsafe {
            let i = CELLS_NEXT - M_CELLS;
            check(i < N_CELLS, "arena: too many initial heap cells");
            CELLS_NEXT = M_CELLS + i + 1;
            std::ptr::write((&raw mut CELLS as *mut HeapValue).add(i), c);
            i
        }
    }
    pub fn list_cell(items: Vec<Value>) -> Value {
        Value::List(ListPointer::new(cell(HeapValue::List(items))))
    }
    pub fn string_cell(s: &str) -> Value {
        Value::String(StringPointer::new(cell(HeapValue::String(String::from(s)))))
    }
    /// heap over the cells registered so far; the buffer is a typed static with capacity N_CELLS,
    /// so cells pushed by the code under test land in typed storage too.
    pub fn heap() -> Rc<RefCell<Heap>> {
        if native() {
            let cells = unsafe { std::mem::take(&mut *(&raw mut NATIVE_CELLS)) };
            return Rc::new(RefCell::new(Heap::verif_from_values(cells)));
        }
        unsafe {
            let v = Vec::from_raw_parts(&raw mut CELLS as *mut HeapValue, CELLS_NEXT - M_CELLS, N_CELLS);
            HEAP_RC.value = RefCell::new(Heap::verif_from_values(v));
            Rc::from_raw(&raw const HEAP_RC.value)
        }
    }
    static mut CELLS_B: [HeapValue; 4] = [const { HeapValue::List(Vec::new()) }; 4];
    static mut HEAP_RC_B: RcBoxLike<RefCell<Heap>> = RcBoxLike {
        strong: Cell::new(1),
        weak: Cell::new(1),
        value: RefCell::new(Heap::verif_from_values(Vec::new())),
    };
    /// a second, independent heap (typed static as well) whose cell 0 is the given list
    pub fn second_heap_with_list(items: Vec<Value>) -> Rc<RefCell<Heap>> {
        if native() {
            return Rc::new(RefCell::new(Heap::verif_from_values(vec![HeapValue::List(items)])));
        }
        unsafe {
            std::ptr::write(&raw mut CELLS_B as *mut HeapValue, HeapValue::List(items));
            let v = Vec::from_raw_parts(&raw mut CELLS_B as *mut HeapValue, 1, 4);
            HEAP_RC_B.value = RefCell::new(Heap::verif_from_values(v));
            Rc::from_raw(&raw const HEAP_RC_B.value)
        }
    }
    pub fn env() -> Rc<Environment> {
        Rc::new(Environment::new())
    }
}

/// read list `v` out of the heap as up to 3 values + length (harness-side observation)
pub fn read_list(v: Value, heap: &Rc<RefCell<Heap>>) -> Option<(usize, [Value; 3])> {
    match v {
        Value::List(p) => {
            let h = heap.borrow();
            match h.get(p.index()) {
                Some(HeapValue::List(l)) => {
                    let mut out = [Value::Null; 3];
                    let n = l.len();
                    if n > 0 {
                        out[0] = l[0];
                    }
                    if n > 1 {
                        out[1] = l[1];
                    }
                    if n > 2 {
                        out[2] = l[2];
                    }
                    Some((n, out))
                }
                _ => None,
            }
        }
        _ => None,
    }
}

/// `unwrap` without the `dyn Debug` formatting of the error (CBMC resolves that virtual call to
/// every Debug impl in the program)
pub fn ok<T>(r: Result<T, blots_core::error::RuntimeError>) -> T {
    match r {
        Ok(v) => v,
        Err(_) => panic!("unexpected Err(RuntimeError)"),
    }
}
pub fn oka<T>(r: anyhow::Result<T>) -> T {
    match r {
        Ok(v) => v,
        Err(e) => {
            std::mem::forget(e);
            panic!("unexpected Err(anyhow)")
        }
    }
}

/// argument vector over typed static storage (see arena::vals)
#[macro_export]
macro_rules! av {
    () => { $crate::util::arena::vals0() };
    ($a:expr) => { $crate::util::arena::vals1($a) };
    ($a:expr, $b:expr) => { $crate::util::arena::vals2($a, $b) };
    ($a:expr, $b:expr, $c:expr) => { $crate::util::arena::vals3($a, $b, $c) };
    ($a:expr, $b:expr, $c:expr, $d:expr) => { $crate::util::arena::vals4($a, $b, $c, $d) };
}

/// `evaluate_ast` replaced by a constant: used only by the binding-phase harnesses of C04, which
/// decide what `FunctionDef::call` does *before* the body is evaluated (a lambda body stored
/// inline in `FunctionDef::Lambda` is an enum inside an enum payload - CBMC loses its tag).
pub fn stub_evaluate_ast_null(
    _e: &SpannedExpr,
    _h: Rc<RefCell<Heap>>,
    _b: Rc<Environment>,
    _d: usize,
    _s: Rc<str>,
) -> Result<Value, blots_core::error::RuntimeError> {
    Ok(Value::Null)
}

/// `HashMap::insert` as a no-op, for the binding-phase harnesses of C04 only: they decide that
/// `FunctionDef::call` never indexes its argument vector out of range while binding, not what ends
/// up bound (the body is cut as well).  Removes hashbrown from those harnesses.
pub fn stub_hashmap_insert<K, V, S, A: std::alloc::Allocator>(_m: &mut std::collections::HashMap<K, V, S, A>, _k: K, _v: V) -> Option<V> {
    None
}

/// `FunctionDef::call` replaced by a recorder: stores the call depth the callee receives and
/// returns `true`.  Used by the C18 propagation harnesses, which compare the depth a callee sees
/// under a wrapper (conditional, do-block, operator, via/into/where) with the depth it sees for the
/// bare call; the guard inside the real `call` is decided separately on the real function.
pub static mut DEPTH_SEEN: usize = 0x5a5a_0000_0000_0001; // never all-zero bytes (see arena)
pub static mut CALLS_SEEN: usize = 0x5a5a_0000_0000_0000;
pub const CALLS_SEEN_BASE: usize = 0x5a5a_0000_0000_0000;
pub fn stub_function_def_call_record_depth(
    _this: &blots_core::functions::FunctionDef,
    _this_value: Value,
    args: Vec<Value>,
    _heap: Rc<RefCell<Heap>>,
    _bindings: Rc<Environment>,
    call_depth: usize,
    _source: &str,
) -> Result<Value, blots_core::error::RuntimeError> {
    unsafe {
        DEPTH_SEEN = call_depth;
        CALLS_SEEN += 1;
    }
    std::mem::forget(args);
    Ok(Value::Bool(true)) // acceptable as a `where` predicate result and as a `??` operand
}

// ---- cuts for the C06 data harnesses: plain data never reaches the function-source machinery ----
// (each is a failing cut: reaching it for a value without functions fails the check)
pub fn stub_get_pairs_cut(_input: &str) -> Result<pest::iterators::Pairs<'_, blots_core::parser::Rule>, pest::error::Error<blots_core::parser::Rule>> {
    panic!("verif-cut: the parser was reached while loading plain data")
}
pub fn stub_expr_to_source_with_scope_cut(_e: &SpannedExpr, _scope: &indexmap::IndexMap<String, blots_core::values::SerializableValue>) -> String {
    panic!("verif-cut: function-source emission was reached while serialising plain data")
}
pub fn stub_parse_function_source_cut(_source: &str) -> anyhow::Result<blots_core::values::SerializableLambdaDef> {
    panic!("verif-cut: function-source parsing was reached while reading plain data")
}

/// `FunctionDef::call` for the C13 harness family: the callee must be one of five small built-ins
/// and is dispatched on a *constant* selector to the real `BuiltInFunction::call` (the real
/// `FunctionDef::call` reaches, for CBMC, the lambda branch and all ~70 built-ins on every
/// callback, because the `FunctionDef` tag sits in an enum nested in an `Option` payload).  What
/// the stub drops - the depth guard, the call statistics, the error context - is decided under
/// C18 / not claimed; the arity check is kept.
pub fn stub_function_def_call_small_builtins(
    this: &blots_core::functions::FunctionDef,
    _this_value: Value,
    args: Vec<Value>,
    heap: Rc<RefCell<Heap>>,
    bindings: Rc<Environment>,
    call_depth: usize,
    source: &str,
) -> Result<Value, blots_core::error::RuntimeError> {
    use blots_core::functions::BuiltInFunction as B;
    use blots_core::functions::FunctionDef;
    match this {
        FunctionDef::BuiltIn(b) => {
            if !b.arity().can_accept(args.len()) {
                return Err(blots_core::error::RuntimeError::from("wrong number of arguments"));
            }
            match b {
                B::Abs => B::Abs.call(args, heap, bindings, call_depth, source),
                B::Min => B::Min.call(args, heap, bindings, call_depth, source),
                B::Floor => B::Floor.call(args, heap, bindings, call_depth, source),
                B::ToBool => B::ToBool.call(args, heap, bindings, call_depth, source),
                B::Len => B::Len.call(args, heap, bindings, call_depth, source),
                _ => panic!("verif-cut: a callee outside the five built-ins of the C13 harness family"),
            }
        }
        FunctionDef::Lambda(_) => panic!("verif-cut: lambda callee in the C13 harness family"),
    }
}
