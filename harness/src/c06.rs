//! C06 (in-process stages only): Value <-> SerializableValue <-> serde_json::Value on scalars and
//! flat lists of scalars.  The JSON *text* stage (serde_json's writer/reader, ryu, float parsing),
//! strings, records and nesting are outside the claim.
use crate::kproof;
use crate::util::*;
use blots_core::values::*;

fn bits_eq(x: f64, y: f64) -> bool {
    x.to_bits() == y.to_bits()
}

/// `kproof!(cut, ..)` plus failing cuts of the function-source machinery (parser, source emission)
macro_rules! c06_data_proof {
    ($unwind:literal, fn $name:ident() $body:block) => {
        #[cfg(kani)]
        #[kani::proof]
        #[kani::unwind($unwind)]
        #[kani::stub(std::hash::RandomState::new, crate::util::stub_random_state_new)]
        #[kani::stub(alloc::alloc::dealloc, crate::util::stub_dealloc)]
        #[kani::stub(alloc::alloc::dealloc_nonnull, crate::util::stub_dealloc_nonnull)]
        #[kani::stub(alloc::alloc::realloc, crate::util::stub_realloc)]
        #[kani::stub(alloc::alloc::realloc_nonnull, crate::util::stub_realloc_nonnull)]
        #[kani::stub(std::backtrace::Backtrace::capture, crate::util::stub_backtrace_capture)]
        #[kani::stub(alloc::fmt::format, crate::util::stub_format)]
        #[kani::stub(std::time::Instant::now, crate::util::stub_instant_now)]
        #[kani::stub(std::sync::Mutex::lock, crate::util::stub_mutex_lock)]
        #[kani::stub(blots_core::values::Value::stringify, crate::util::stub_stringify)]
        #[kani::stub(blots_core::units::convert, crate::util::stub_units_convert)]
        #[kani::stub(::anyhow::Error::msg, crate::util::stub_anyhow_msg_cut)]
        #[kani::stub(::anyhow::__private::format_err, crate::util::stub_anyhow_format_err_cut)]
        #[kani::stub(blots_core::parser::get_pairs, crate::util::stub_get_pairs_cut)]
        #[kani::stub(blots_core::ast_to_source::expr_to_source_with_scope, crate::util::stub_expr_to_source_with_scope_cut)]
        #[kani::stub(blots_core::values::SerializableValue::parse_function_source, crate::util::stub_parse_function_source_cut)]
        pub fn $name() $body
    };
}

/// finite number -> JSON value -> number: the identical double (sign of zero included)
kproof!(noerr, 4, fn c06_q_number_json_value_stage_bit_exact() {
    let x: f64 = kani::any();
    kani::assume(x.is_finite());
    let sv = SerializableValue::Number(x);
    let j = sv.to_json();
    let back = SerializableValue::from_json(&j);
    match back {
        SerializableValue::Number(y) => assert!(bits_eq(x, y)),
        _ => panic!("a number came back from JSON as another kind"),
    }
    kani::cover!(x == 0.0 && x.is_sign_negative(), "negative zero");
    kani::cover!(x > 9.3e18, "beyond i64");
    kani::cover!(x > 0.0 && x < 1.0, "fraction");
    std::mem::forget(j);
});

/// booleans and null through the JSON value stage
kproof!(noerr, 4, fn c06_q_bool_null_json_value_stage() {
    let b: bool = kani::any();
    let j = SerializableValue::Bool(b).to_json();
    match SerializableValue::from_json(&j) {
        SerializableValue::Bool(c) => assert!(b == c),
        _ => panic!("a boolean came back from JSON as another kind"),
    }
    let jn = SerializableValue::Null.to_json();
    assert!(matches!(SerializableValue::from_json(&jn), SerializableValue::Null));
    kani::cover!(b, "true");
    kani::cover!(!b, "false");
    std::mem::forget(j);
    std::mem::forget(jn);
});

/// scalars through the heap stage (to_value then from_value)
kproof!(noerr, 4, fn c06_q_scalar_heap_stage() {
    let x: f64 = kani::any();
    let b: bool = kani::any();
    let heap = arena::heap();
    {
        let mut h = heap.borrow_mut();
        let v = oka(SerializableValue::Number(x).to_value(&mut h));
        match oka(SerializableValue::from_value(&v, &h)) {
            SerializableValue::Number(y) => assert!(bits_eq(x, y)),
            _ => panic!("number changed kind"),
        }
        let v = oka(SerializableValue::Bool(b).to_value(&mut h));
        match oka(SerializableValue::from_value(&v, &h)) {
            SerializableValue::Bool(c) => assert!(b == c),
            _ => panic!("bool changed kind"),
        }
        let v = oka(SerializableValue::Null.to_value(&mut h));
        assert!(matches!(oka(SerializableValue::from_value(&v, &h)), SerializableValue::Null));
    }
    kani::cover!(true, "reach-end");
    std::mem::forget(heap);
});

// typed static storage for a flat Vec<SerializableValue> (see util::arena for why)
static mut SV_ITEMS: [SerializableValue; 4] = [const { SerializableValue::Null }; 4];
fn sv_list3(a: SerializableValue, b: SerializableValue, c: SerializableValue) -> Vec<SerializableValue> {
    if native() {
        return vec![a, b, c];
    }
    unsafe {
        let p = &raw mut SV_ITEMS as *mut SerializableValue;
        std::ptr::write(p, a);
        std::ptr::write(p.add(1), b);
        std::ptr::write(p.add(2), c);
        Vec::from_raw_parts(p, 3, 4)
    }
}

/// heap list of scalars -> SerializableValue: same length, order and elements
kproof!(cut, 6, fn c06_q_heap_list_to_serializable() {
    let (a, c): (f64, f64) = (kani::any(), kani::any());
    let b: bool = kani::any();
    let l = arena::list_cell(vec![Value::Number(a), Value::Bool(b), Value::Number(c)]);
    let heap = arena::heap();
    let sv = oka(SerializableValue::from_value(&l, &heap.borrow()));
    match &sv {
        SerializableValue::List(items) => {
            assert!(items.len() == 3);
            assert!(matches!(&items[0], SerializableValue::Number(y) if bits_eq(a, *y)));
            assert!(matches!(&items[1], SerializableValue::Bool(y) if b == *y));
            assert!(matches!(&items[2], SerializableValue::Number(y) if bits_eq(c, *y)));
        }
        _ => panic!("a list was serialised as another kind"),
    }
    kani::cover!(true, "reach-end");
    std::mem::forget(sv);
    std::mem::forget(heap);
});

/// SerializableValue list of scalars -> heap: a list cell with the same length, order and elements
kproof!(cut, 6, fn c06_q_serializable_list_to_heap() {
    let (a, c): (f64, f64) = (kani::any(), kani::any());
    let b: bool = kani::any();
    let sv = SerializableValue::List(sv_list3(SerializableValue::Number(a), SerializableValue::Bool(b), SerializableValue::Number(c)));
    let heap = arena::heap();
    let v = oka(sv.to_value(&mut heap.borrow_mut()));
    match read_list(v, &heap) {
        Some((3, el)) => {
            assert!(same_value(el[0], Value::Number(a)));
            assert!(same_value(el[1], Value::Bool(b)));
            assert!(same_value(el[2], Value::Number(c)));
        }
        _ => panic!("a serialised list was loaded as another shape"),
    }
    kani::cover!(true, "reach-end");
    std::mem::forget(sv);
    std::mem::forget(heap);
});

// ---- thorough tier -----------------------------------------------------------------------------
// Not registered (measured in the build round, with the function-source machinery cut): a flat list
// through the JSON value stage, the nested list [[a, null], b, c] through the heap stage and the
// whole in-process chain on a list did not finish in 40 min / 12 min with the cuts (4-8 GB):
// elements of a Vec<serde_json::Value> / Vec<Value> produced by the code under test sit in malloc'ed
// byte buffers, their tags and heap indices are not constants, and every arm (records, functions)
// is explored for every element.

fn ascii3() -> (String, [u8; 3]) {
    let b: [u8; 3] = [kani::any(), kani::any(), kani::any()];
    kani::assume(b[0] < 128 && b[1] < 128 && b[2] < 128);
    let mut v = Vec::<u8>::with_capacity(3);
    v.push(b[0]);
    v.push(b[1]);
    v.push(b[2]);
    (unsafe { String::from_utf8_unchecked(v) }, b)
}
fn is_bytes3(s: &str, b: [u8; 3]) -> bool {
    let t = s.as_bytes();
    t.len() == 3 && t[0] == b[0] && t[1] == b[1] && t[2] == b[2]
}

/// a 3-byte ASCII string (quotes, backslashes and control characters included) through the heap stage
kproof!(cut, 6, fn c06_t_string_heap_stage() {
    let (s, b) = ascii3();
    let sv = SerializableValue::String(s);
    let heap = arena::heap();
    let v = oka(sv.to_value(&mut heap.borrow_mut()));
    let back = oka(SerializableValue::from_value(&v, &heap.borrow()));
    match &back {
        SerializableValue::String(t) => assert!(is_bytes3(t, b)),
        _ => panic!("a string came back as another kind"),
    }
    kani::cover!(b[0] == b'"' && b[1] == b'\\', "quote and backslash");
    std::mem::forget(sv);
    std::mem::forget(back);
    std::mem::forget(heap);
});

/// the same string through the JSON value stage
kproof!(cut, 6, fn c06_t_string_json_value_stage() {
    let (s, b) = ascii3();
    let sv = SerializableValue::String(s);
    let j = sv.to_json();
    let back = SerializableValue::from_json(&j);
    match &back {
        SerializableValue::String(t) => assert!(is_bytes3(t, b)),
        _ => panic!("a string came back from JSON as another kind"),
    }
    kani::cover!(b[0] == b'"' && b[1] == b'\\', "quote and backslash");
    std::mem::forget(sv);
    std::mem::forget(j);
    std::mem::forget(back);
});




/// a value that references the same list twice ([row, row]) is plain data, not a cycle: it is
/// serialised with both occurrences intact
c06_data_proof!(6, fn c06_q_shared_sublist_to_serializable() {
    let a: f64 = kani::any();
    let row = arena::list_cell(vec![Value::Number(a)]);
    // (word-wise store: a heap index copied out of a `vec![..]` buffer is not a constant for CBMC)
    let l = arena::list_cell(arena::vals2(row, row));
    let heap = arena::heap();
    let sv = oka(SerializableValue::from_value(&l, &heap.borrow()));
    match &sv {
        SerializableValue::List(items) => {
            assert!(items.len() == 2);
            let mut k = 0;
            while k < 2 {
                match &items[k] {
                    SerializableValue::List(inner) => {
                        assert!(inner.len() == 1);
                        assert!(matches!(&inner[0], SerializableValue::Number(y) if bits_eq(a, *y)));
                    }
                    _ => panic!("an occurrence of the shared row was serialised as another kind"),
                }
                k += 1;
            }
        }
        _ => panic!("a list was serialised as another kind"),
    }
    kani::cover!(true, "reach-end");
    std::mem::forget(sv);
    std::mem::forget(heap);
});
