//! C14: indexing, spreading and the list built-ins satisfy their laws (lists of numbers, length <= 3).
use crate::av;
use crate::kproof;
use crate::util::*;
use blots_core::ast::*;
use blots_core::error::RuntimeError;
use blots_core::expressions::evaluate_ast;
use blots_core::functions::BuiltInFunction;
use blots_core::heap::*;
use blots_core::values::*;
use std::cell::RefCell;
use std::rc::Rc;

pub fn call_bi(f: BuiltInFunction, args: Vec<Value>, heap: &Rc<RefCell<Heap>>) -> Result<Value, RuntimeError> {
    f.call(args, heap.clone(), arena::env(), 0, "")
}
fn n(x: f64) -> Value {
    Value::Number(x)
}
/// symbolic integral double in [-lim, lim]
#[cfg(kani)]
fn any_int(lim: i64) -> f64 {
    let k: i64 = kani::any();
    kani::assume(k >= -lim && k <= lim);
    k as f64
}

// ------------------------------------------------------------------------------ indexing
// list[i] is 0-based, counts from the end for negative i, null out of range (integral i)
kproof!(noerr_nocall, 4, fn c14_q_index_integral() {
    let a: f64 = kani::any();
    let b: f64 = kani::any();
    let c: f64 = kani::any();
    let i = any_int(6);
    let e = sp(Expr::Access { expr: arena::bx(arena::list3(num(a), num(b), num(c))), index: arena::bx(num(i)) });
    let heap = arena::heap();
    let want = {
        let k = i as i64;
        let idx = if k < 0 { 3 + k } else { k };
        if idx == 0 { n(a) } else if idx == 1 { n(b) } else if idx == 2 { n(c) } else { Value::Null }
    };
    match evaluate_ast(&e, heap.clone(), arena::env(), 0, src()) {
        Ok(v) => assert!(same_value(v, want)),
        Err(_) => panic!("indexing a list with a number failed"),
    }
    kani::cover!(i == -3.0, "reach -len");
    kani::cover!(i == 2.0, "reach last");
    std::mem::forget(e);
    std::mem::forget(heap);
});
// any double index (NaN, inf, 1e300, fractions): a value comes back, never a panic; huge -> null
kproof!(noerr_nocall, 4, fn c14_q_index_any_double_total() {
    let a: f64 = kani::any();
    let b: f64 = kani::any();
    let i: f64 = kani::any();
    let e = sp(Expr::Access { expr: arena::bx(arena::list2(num(a), num(b))), index: arena::bx(num(i)) });
    let heap = arena::heap();
    match evaluate_ast(&e, heap.clone(), arena::env(), 0, src()) {
        Ok(v) => {
            assert!(same_value(v, n(a)) || same_value(v, n(b)) || same_value(v, Value::Null));
            if i >= 2.0 || i <= -3.0 {
                assert!(same_value(v, Value::Null));
            }
        }
        Err(_) => panic!("indexing a list with a number failed"),
    }
    kani::cover!(true, "reach-end");
    std::mem::forget(e);
    std::mem::forget(heap);
});

// ------------------------------------------------------------------------------ reverse
kproof!(noerr, 5, fn c14_q_reverse_involution() {
    let (a, b, c): (f64, f64, f64) = (kani::any(), kani::any(), kani::any());
    let l = arena::list_cell(vec![n(a), n(b), n(c)]);
    let heap = arena::heap();
    let r = ok(call_bi(BuiltInFunction::Reverse, av![l], &heap));
    match read_list(r, &heap) {
        Some((3, el)) => assert!(same_value(el[0], n(c)) && same_value(el[1], n(b)) && same_value(el[2], n(a))),
        _ => panic!("reverse: wrong shape"),
    }
    let rr = ok(call_bi(BuiltInFunction::Reverse, av![r], &heap));
    match read_list(rr, &heap) {
        Some((3, el)) => assert!(same_value(el[0], n(a)) && same_value(el[1], n(b)) && same_value(el[2], n(c))),
        _ => panic!("reverse: wrong shape"),
    }
    kani::cover!(true, "reach-end");
    std::mem::forget(heap);
});

// ------------------------------------------------------------------------------ sort
kproof!(noerr, 5, fn c14_q_sort2_stable() {
    let (a, b): (f64, f64) = (kani::any(), kani::any());
    kani::assume(!a.is_nan() && !b.is_nan());
    let l = arena::list_cell(vec![n(a), n(b)]);
    let heap = arena::heap();
    let r = ok(call_bi(BuiltInFunction::Sort, av![l], &heap));
    match read_list(r, &heap) {
        Some((2, el)) => {
            // stable: equal keys (0.0 / -0.0) keep their order
            if a <= b {
                assert!(same_value(el[0], n(a)) && same_value(el[1], n(b)));
            } else {
                assert!(same_value(el[0], n(b)) && same_value(el[1], n(a)));
            }
        }
        _ => panic!("sort: wrong shape"),
    }
    kani::cover!(true, "reach-end");
    std::mem::forget(heap);
});
kproof!(noerr, 6, fn c14_t_sort3_sorted_permutation() {
    let (a, b, c): (f64, f64, f64) = (kani::any(), kani::any(), kani::any());
    kani::assume(!a.is_nan() && !b.is_nan() && !c.is_nan());
    let l = arena::list_cell(vec![n(a), n(b), n(c)]);
    let heap = arena::heap();
    let r = ok(call_bi(BuiltInFunction::Sort, av![l], &heap));
    match read_list(r, &heap) {
        Some((3, el)) => match (el[0], el[1], el[2]) {
            (Value::Number(x), Value::Number(y), Value::Number(z)) => {
                assert!(x <= y && y <= z);
                let (xb, yb, zb) = (x.to_bits(), y.to_bits(), z.to_bits());
                let (ab, bb, cb) = (a.to_bits(), b.to_bits(), c.to_bits());
                let perm = (xb == ab && yb == bb && zb == cb) || (xb == ab && yb == cb && zb == bb)
                    || (xb == bb && yb == ab && zb == cb) || (xb == bb && yb == cb && zb == ab)
                    || (xb == cb && yb == ab && zb == bb) || (xb == cb && yb == bb && zb == ab);
                assert!(perm);
            }
            _ => panic!("sort: non-number element"),
        },
        _ => panic!("sort: wrong shape"),
    }
    kani::cover!(true, "reach-end");
    std::mem::forget(heap);
});

// ------------------------------------------------------------------------------ unique
kproof!(noerr, 6, fn c14_q_unique_keeps_first() {
    let (a, b, c): (f64, f64, f64) = (kani::any(), kani::any(), kani::any());
    kani::assume(!a.is_nan() && !b.is_nan() && !c.is_nan());
    let l = arena::list_cell(vec![n(a), n(b), n(c)]);
    let heap = arena::heap();
    let r = ok(call_bi(BuiltInFunction::Unique, av![l], &heap));
    let keep_b = b != a;
    let keep_c = c != a && c != b;
    let want_n = 1 + keep_b as usize + keep_c as usize;
    match read_list(r, &heap) {
        Some((k, el)) => {
            assert!(k == want_n);
            assert!(same_value(el[0], n(a)));
            if keep_b {
                assert!(same_value(el[1], n(b)));
                if keep_c { assert!(same_value(el[2], n(c))); }
            } else if keep_c {
                assert!(same_value(el[1], n(c)));
            }
        }
        _ => panic!("unique: wrong shape"),
    }
    kani::cover!(want_n == 2, "reach a duplicate");
    std::mem::forget(heap);
});

// ------------------------------------------------------------------------------ concat / spread
kproof!(noerr, 6, fn c14_q_concat_and_spread_agree() {
    let (a, b, c): (f64, f64, f64) = (kani::any(), kani::any(), kani::any());
    let l1 = arena::list_cell(vec![n(a), n(b)]);
    let l2 = arena::list_cell(vec![n(c)]);
    // [...[a, b], ...[c]] through the evaluator
    let e = sp(arena::list2(
        Expr::Spread(arena::bx(arena::list2(num(a), num(b)))),
        Expr::Spread(arena::bx(arena::list1(num(c)))),
    ));
    let heap = arena::heap();
    let r = ok(call_bi(BuiltInFunction::Concat, av![l1, l2], &heap));
    match read_list(r, &heap) {
        Some((3, el)) => assert!(same_value(el[0], n(a)) && same_value(el[1], n(b)) && same_value(el[2], n(c))),
        _ => panic!("concat: wrong shape"),
    }
    match evaluate_ast(&e, heap.clone(), arena::env(), 0, src()) {
        Ok(v) => match read_list(v, &heap) {
            Some((3, el)) => assert!(same_value(el[0], n(a)) && same_value(el[1], n(b)) && same_value(el[2], n(c))),
            _ => panic!("spread: wrong shape"),
        },
        Err(_) => panic!("spread failed"),
    }
    kani::cover!(true, "reach-end");
    std::mem::forget(e);
    std::mem::forget(heap);
});

// ------------------------------------------------------------------------------ head / tail / len
kproof!(noerr, 5, fn c14_q_head_tail_len() {
    let (a, b, c): (f64, f64, f64) = (kani::any(), kani::any(), kani::any());
    let l = arena::list_cell(vec![n(a), n(b), n(c)]);
    let e = arena::list_cell(vec![]);
    let heap = arena::heap();
    assert!(same_value(ok(call_bi(BuiltInFunction::Head, av![l], &heap)), n(a)));
    assert!(same_value(ok(call_bi(BuiltInFunction::Head, av![e], &heap)), Value::Null));
    assert!(same_value(ok(call_bi(BuiltInFunction::Len, av![l], &heap)), n(3.0)));
    assert!(same_value(ok(call_bi(BuiltInFunction::Len, av![e], &heap)), n(0.0)));
    let t = ok(call_bi(BuiltInFunction::Tail, av![l], &heap));
    match read_list(t, &heap) {
        Some((2, el)) => assert!(same_value(el[0], n(b)) && same_value(el[1], n(c))),
        _ => panic!("tail: wrong shape"),
    }
    let te = ok(call_bi(BuiltInFunction::Tail, av![e], &heap));
    assert!(matches!(read_list(te, &heap), Some((0, _))));
    kani::cover!(true, "reach-end");
    std::mem::forget(heap);
});

// ------------------------------------------------------------------------------ slice
kproof!(cut, 5, fn c14_q_slice_bounds() {
    let (a, b, c): (f64, f64, f64) = (kani::any(), kani::any(), kani::any());
    let s = any_int(5);
    let e = any_int(5);
    kani::assume(s >= 0.0 && e >= 0.0);
    let l = arena::list_cell(vec![n(a), n(b), n(c)]);
    let heap = arena::heap();
    let r = call_bi(BuiltInFunction::Slice, av![l, n(s), n(e)], &heap);
    let (si, ei) = (s as usize, e as usize);
    let src_el = [n(a), n(b), n(c)];
    if si <= ei && ei <= 3 {
        match r {
            Ok(v) => match read_list(v, &heap) {
                Some((k, el)) => {
                    assert!(k == ei - si);
                    if k > 0 { assert!(same_value(el[0], src_el[si])); }
                    if k > 1 { assert!(same_value(el[1], src_el[si + 1])); }
                    if k > 2 { assert!(same_value(el[2], src_el[si + 2])); }
                }
                None => panic!("slice: not a list"),
            },
            Err(_) => panic!("slice inside the bounds failed"),
        }
    } else {
        assert!(r.is_err());
    }
    kani::cover!(si == 3 && ei == 3, "reach start == len");
    kani::cover!(si == 1 && ei == 3, "reach inner");
    std::mem::forget(heap);
});

// ------------------------------------------------------------------------------ range
kproof!(cut, 8, fn c14_q_range_small() {
    let a = any_int(3);
    let b = any_int(3);
    let heap = arena::heap();
    let r = call_bi(BuiltInFunction::Range, av![n(a), n(b)], &heap);
    if a <= b {
        kani::assume(b - a <= 3.0);
        match r {
            Ok(v) => match read_list(v, &heap) {
                Some((k, el)) => {
                    assert!(k as f64 == b - a);
                    if k > 0 { assert!(same_value(el[0], n(a))); }
                    if k > 1 { assert!(same_value(el[1], n(a + 1.0))); }
                    if k > 2 { assert!(same_value(el[2], n(a + 2.0))); }
                }
                None => panic!("range: not a list"),
            },
            Err(_) => panic!("range(a, b) with a <= b failed"),
        }
    } else {
        assert!(r.is_err());
    }
    kani::cover!(a == -2.0 && b == 1.0, "reach a negative start");
    std::mem::forget(heap);
});
kproof!(cut, 8, fn c14_t_range_one_arg() {
    let b = any_int(3);
    let heap = arena::heap();
    let r = call_bi(BuiltInFunction::Range, av![n(b)], &heap);
    if b >= 0.0 {
        match r {
            Ok(v) => match read_list(v, &heap) {
                Some((k, el)) => {
                    assert!(k as f64 == b);
                    if k > 0 { assert!(same_value(el[0], n(0.0))); }
                    if k > 2 { assert!(same_value(el[2], n(2.0))); }
                }
                None => panic!("range: not a list"),
            },
            Err(_) => panic!("range(n) failed"),
        }
    } else {
        assert!(r.is_err());
    }
    kani::cover!(b == 3.0, "reach 3");
    std::mem::forget(heap);
});

// ------------------------------------------------------------------------------ chunk / flatten
// chunk sizes are concrete per path (a free 64-bit divisor inside slice::chunks defeats the solver)
// (one harness per size: even a three-way symbolic choice of the size ends in CBMC `Status: ERROR`)
macro_rules! c14_flatten_chunk {
    ($name:ident, $size:expr, $want_chunks:expr) => {
        kproof!(cut, 6, fn $name() {
            let (a, b): (f64, f64) = (kani::any(), kani::any());
            let l = arena::list_cell(vec![n(a), n(b)]);
            let heap = arena::heap();
            let ch = ok(call_bi(BuiltInFunction::Chunk, av![l, n($size)], &heap));
            match read_list(ch, &heap) {
                Some((m, _)) => assert!(m == $want_chunks),
                None => panic!("chunk: not a list"),
            }
            let fl = ok(call_bi(BuiltInFunction::Flatten, av![ch], &heap));
            match read_list(fl, &heap) {
                Some((2, el)) => assert!(same_value(el[0], n(a)) && same_value(el[1], n(b))),
                _ => panic!("flatten(chunk(l, n)) != l"),
            }
            kani::cover!(true, "reach-end");
            std::mem::forget(heap);
        });
    };
}
// size 1 (two chunks) is not registered: CBMC ends with `Status: ERROR` on every check of that
// harness (no failed check, no verdict), as it does for a symbolic size.
c14_flatten_chunk!(c14_t_flatten_chunk_roundtrip_size_2, 2.0, 1);
c14_flatten_chunk!(c14_t_flatten_chunk_roundtrip_size_3, 3.0, 1);
kproof!(cut, 6, fn c14_t_chunk_zero_and_zip() {
    let (a, b, c): (f64, f64, f64) = (kani::any(), kani::any(), kani::any());
    let l = arena::list_cell(vec![n(a), n(b)]);
    let m = arena::list_cell(vec![n(c)]);
    let heap = arena::heap();
    assert!(call_bi(BuiltInFunction::Chunk, av![l, n(0.0)], &heap).is_err());
    // zip([a, b], [c]) == [[a, c], [b, null]]
    let z = ok(call_bi(BuiltInFunction::Zip, av![l, m], &heap));
    match read_list(z, &heap) {
        Some((2, el)) => {
            match read_list(el[0], &heap) {
                Some((2, p)) => assert!(same_value(p[0], n(a)) && same_value(p[1], n(c))),
                _ => panic!("zip: wrong pair"),
            }
            match read_list(el[1], &heap) {
                Some((2, p)) => assert!(same_value(p[0], n(b)) && same_value(p[1], Value::Null)),
                _ => panic!("zip: wrong pair"),
            }
        }
        _ => panic!("zip: wrong shape"),
    }
    kani::cover!(true, "reach-end");
    std::mem::forget(heap);
});
