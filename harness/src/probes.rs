use crate::util::*;
use blots_core::heap::*;
use blots_core::values::*;

#[inline(never)]
fn marker(n: u32) -> u32 { if n == 0 { 0 } else { marker(n - 1) + 1 } }

#[cfg(kani)]
#[kani::proof]
#[kani::unwind(7)]
#[kani::stub(std::hash::RandomState::new, crate::util::stub_random_state_new)]
fn m20_iter_len_via_heap() {
    let (a, b, c): (f64, f64, f64) = (kani::any(), kani::any(), kani::any());
    let l = arena::list_cell(vec![Value::Number(a), Value::Number(b), Value::Number(c)]);
    let heap = arena::heap();
    let h = heap.borrow();
    let list = match l { Value::List(p) => match p.reify(&h) { HeapValue::List(v) => v, _ => panic!() }, _ => panic!() };
    let mut k = 0;
    for x in list.iter() {
        k += 1;
        if k > 3 { marker(kani::any()); }
        if !matches!(x, Value::Number(_)) { marker(kani::any()); }
    }
    drop(h);
    std::mem::forget(heap);
}
#[cfg(kani)]
#[kani::proof]
#[kani::unwind(7)]
#[kani::stub(std::hash::RandomState::new, crate::util::stub_random_state_new)]
fn m21_collect_result() {
    let (a, b, c): (f64, f64, f64) = (kani::any(), kani::any(), kani::any());
    let v = vec![Value::Number(a), Value::Number(b), Value::Number(c)];
    let r: Result<Vec<f64>, u8> = v.iter().map(|x| match x { Value::Number(n) => Ok(*n), _ => Err(1u8) }).collect();
    match r { Ok(w) => { if w.len() != 3 { marker(kani::any()); } }, Err(_) => { marker(kani::any()); } }
    std::mem::forget(v);
}
crate::kproof!(noerr, 7, fn m22_min_list_call() {
    let (a, b, c): (f64, f64, f64) = (kani::any(), kani::any(), kani::any());
    let l = arena::list_cell(vec![Value::Number(a), Value::Number(b), Value::Number(c)]);
    let heap = arena::heap();
    let r = blots_core::functions::BuiltInFunction::Min.call(arena::vals1(l), heap.clone(), arena::env(), 0, "");
    match r { Ok(_) => {}, Err(_) => { marker(kani::any()); } }
    std::mem::forget(heap);
});
#[cfg(kani)]
#[kani::proof]
#[kani::unwind(7)]
#[kani::stub(alloc::alloc::dealloc, crate::util::stub_dealloc)]
fn m23_vec_value_payload() {
    let a: f64 = kani::any();
    let l = arena::list_cell(vec![Value::Number(a)]);
    let args = arena::vals1(l);
    let idx = match args[0] { Value::List(p) => p.index(), _ => 99 };
    if idx != 0 { marker(kani::any()); }
    std::mem::forget(args);
}
#[cfg(kani)]
#[kani::proof]
#[kani::unwind(7)]
#[kani::stub(std::hash::RandomState::new, crate::util::stub_random_state_new)]
fn m24_as_list_via_args() {
    let a: f64 = kani::any();
    let l = arena::list_cell(vec![Value::Number(a)]);
    let heap = arena::heap();
    let args = vec![l];
    {
        let h = heap.borrow();
        match h.get(match args[0] { Value::List(p) => p.index(), _ => 99 }) {
            Some(HeapValue::List(v)) => { if v.len() != 1 { marker(kani::any()); } if !matches!(v[0], Value::Number(_)) { marker(kani::any()); } }
            _ => { marker(kani::any()); }
        }
    }
    std::mem::forget(args);
    std::mem::forget(heap);
}
