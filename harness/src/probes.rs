use crate::util::*;
use blots_core::heap::*;
use blots_core::values::*;

#[inline(never)]
fn marker(n: u32) -> u32 { if n == 0 { 0 } else { marker(n - 1) + 1 } }

#[cfg(kani)]
#[kani::proof]
#[kani::unwind(7)]
#[kani::stub(std::hash::RandomState::new, crate::util::stub_random_state_new)]
fn m20_iter_len_via_heap() {
    let (a, b, c): (f64, f64, f64) = (kani::any(), kani::any(), kani::any());
    let l = arena::list_cell(vec![Value::Number(a), Value::Number(b), Value::Number(c)]);
    let heap = arena::heap();
    let h = heap.borrow();
    let list = match l { Value::List(p) => match p.reify(&h) { HeapValue::List(v) => v, _ => panic!() }, _ => panic!() };
    let mut k = 0;
    for x in list.iter() {
        k += 1;
        if k > 3 { marker(kani::any()); }
        if !matches!(x, Value::Number(_)) { marker(kani::any()); }
    }
    drop(h);
    std::mem::forget(heap);
}
#[cfg(kani)]
#[kani::proof]
#[kani::unwind(7)]
#[kani::stub(std::hash::RandomState::new, crate::util::stub_random_state_new)]
fn m21_collect_result() {
    let (a, b, c): (f64, f64, f64) = (kani::any(), kani::any(), kani::any());
    let v = vec![Value::Number(a), Value::Number(b), Value::Number(c)];
    let r: Result<Vec<f64>, u8> = v.iter().map(|x| match x { Value::Number(n) => Ok(*n), _ => Err(1u8) }).collect();
    match r { Ok(w) => { if w.len() != 3 { marker(kani::any()); } }, Err(_) => { marker(kani::any()); } }
    std::mem::forget(v);
}
crate::kproof!(noerr, 7, fn m22_min_list_call() {
    let (a, b, c): (f64, f64, f64) = (kani::any(), kani::any(), kani::any());
    let l = arena::list_cell(vec![Value::Number(a), Value::Number(b), Value::Number(c)]);
    let heap = arena::heap();
    let r = blots_core::functions::BuiltInFunction::Min.call(arena::vals1(l), heap.clone(), arena::env(), 0, "");
    match r { Ok(_) => {}, Err(_) => { marker(kani::any()); } }
    std::mem::forget(heap);
});
#[cfg(kani)]
#[kani::proof]
#[kani::unwind(7)]
#[kani::stub(alloc::alloc::dealloc, crate::util::stub_dealloc)]
fn m23_vec_value_payload() {
    let a: f64 = kani::any();
    let l = arena::list_cell(vec![Value::Number(a)]);
    let args = arena::vals1(l);
    let idx = match args[0] { Value::List(p) => p.index(), _ => 99 };
    if idx != 0 { marker(kani::any()); }
    std::mem::forget(args);
}
#[cfg(kani)]
#[kani::proof]
#[kani::unwind(7)]
#[kani::stub(std::hash::RandomState::new, crate::util::stub_random_state_new)]
fn m24_as_list_via_args() {
    let a: f64 = kani::any();
    let l = arena::list_cell(vec![Value::Number(a)]);
    let heap = arena::heap();
    let args = vec![l];
    {
        let h = heap.borrow();
        match h.get(match args[0] { Value::List(p) => p.index(), _ => 99 }) {
            Some(HeapValue::List(v)) => { if v.len() != 1 { marker(kani::any()); } if !matches!(v[0], Value::Number(_)) { marker(kani::any()); } }
            _ => { marker(kani::any()); }
        }
    }
    std::mem::forget(args);
    std::mem::forget(heap);
}
crate::kproof!(cut, 6, fn m30_percentile_empty() {
    let p: f64 = kani::any();
    let l = arena::list_cell(vec![]);
    let heap = arena::heap();
    let _ = blots_core::functions::BuiltInFunction::Percentile.call(crate::av![l, Value::Number(p)], heap.clone(), arena::env(), 0, "");
    std::mem::forget(heap);
});
crate::kproof!(cut, 6, fn m31_chunk_empty() {
    let p: f64 = kani::any();
    let l = arena::list_cell(vec![]);
    let heap = arena::heap();
    let _ = blots_core::functions::BuiltInFunction::Chunk.call(crate::av![l, Value::Number(p)], heap.clone(), arena::env(), 0, "");
    std::mem::forget(heap);
});
crate::kproof!(cut, 6, fn m32_includes_empty() {
    let p: f64 = kani::any();
    let l = arena::list_cell(vec![]);
    let heap = arena::heap();
    let _ = blots_core::functions::BuiltInFunction::Includes.call(crate::av![l, Value::Number(p)], heap.clone(), arena::env(), 0, "");
    std::mem::forget(heap);
});
crate::kproof!(noerr, 20, fn m40_env_insert_get() {
    let a: f64 = kani::any();
    let env = blots_core::environment::Environment::new();
    env.insert(String::from("x"), Value::Number(a));
    match env.get("x") { Some(Value::Number(v)) => assert!(v.to_bits() == a.to_bits()), _ => panic!("lost binding") }
    assert!(env.get("y").is_none());
    assert!(env.contains_key("x") && !env.contains_key("y"));
    kani::cover!(true, "reach-end");
    std::mem::forget(env);
});
macro_rules! m50 {
    ($name:ident, $f:expr) => {
        crate::kproof!(cut, 6, fn $name() {
            let (a, b): (f64, f64) = (kani::any(), kani::any());
            let l = arena::list_cell(vec![Value::Number(a), Value::Number(b)]);
            let heap = arena::heap();
            let _ = $f.call(crate::av![l], heap.clone(), arena::env(), 0, "");
            std::mem::forget(heap);
        });
    };
}
use blots_core::functions::BuiltInFunction as BB;
m50!(m50_len, BB::Len); m50!(m50_head, BB::Head); m50!(m50_tail, BB::Tail); m50!(m50_unique, BB::Unique); m50!(m50_sort, BB::Sort);
m50!(m50_reverse, BB::Reverse); m50!(m50_any, BB::Any); m50!(m50_all, BB::All); m50!(m50_flatten, BB::Flatten);
#[cfg(kani)]
#[kani::proof]
#[kani::unwind(6)]
fn m60_empty_vec_plain() {
    let a: f64 = kani::any();
    let mut v: Vec<Value> = vec![];
    for x in &v { if matches!(x, Value::Null) { marker(1); } }
    v.push(Value::Number(a));
    for x in &v { if matches!(x, Value::Null) { marker(1); } }
    v.push(Value::Number(a));
    std::mem::forget(v);
}
crate::kproof!(cut, 6, fn m61_empty_vec_stubs() {
    let a: f64 = kani::any();
    let mut v: Vec<Value> = vec![];
    for x in &v { if matches!(x, Value::Null) { marker(1); } }
    v.push(Value::Number(a));
    for x in &v { if matches!(x, Value::Null) { marker(1); } }
    v.push(Value::Number(a));
    std::mem::forget(v);
});
crate::kproof!(noerr, 6, fn m62_unique_noerr() {
    let (a, b): (f64, f64) = (kani::any(), kani::any());
    let l = arena::list_cell(vec![Value::Number(a), Value::Number(b)]);
    let heap = arena::heap();
    let _ = BB::Unique.call(crate::av![l], heap.clone(), arena::env(), 0, "");
    std::mem::forget(heap);
});
crate::kproof!(cut, 6, fn m63_unique_one() {
    let a: f64 = kani::any();
    let l = arena::list_cell(vec![Value::Number(a)]);
    let heap = arena::heap();
    let _ = BB::Unique.call(crate::av![l], heap.clone(), arena::env(), 0, "");
    std::mem::forget(heap);
});
crate::kproof!(cut, 6, fn m64_unique_vecargs() {
    let (a, b): (f64, f64) = (kani::any(), kani::any());
    let l = arena::list_cell(vec![Value::Number(a), Value::Number(b)]);
    let heap = arena::heap();
    let _ = BB::Unique.call(vec![l], heap.clone(), arena::env(), 0, "");
    std::mem::forget(heap);
});
fn unique_copy(args: Vec<Value>, heap: std::rc::Rc<std::cell::RefCell<Heap>>) -> Result<Value, blots_core::error::RuntimeError> {
    let mut unique_list = vec![];
    let borrowed_heap = heap.borrow();
    let list = args[0].as_list(&borrowed_heap)?;
    for item in list.iter() {
        let mut is_duplicate = false;
        for existing in &unique_list {
            if item.equals(existing, &borrowed_heap)? {
                is_duplicate = true;
                break;
            }
        }
        if !is_duplicate {
            unique_list.push(*item);
        }
    }
    drop(borrowed_heap);
    Ok(heap.borrow_mut().insert_list(unique_list))
}
crate::kproof!(cut, 6, fn m65_unique_copy() {
    let a: f64 = kani::any();
    let l = arena::list_cell(vec![Value::Number(a)]);
    let heap = arena::heap();
    let _ = unique_copy(crate::av![l], heap.clone());
    std::mem::forget(heap);
});
fn unique_copy2(args: Vec<Value>, heap: std::rc::Rc<std::cell::RefCell<Heap>>) -> Result<Value, blots_core::error::RuntimeError> {
    let mut unique_list = vec![];
    let borrowed_heap = heap.borrow();
    let list = args[0].as_list(&borrowed_heap)?;
    for item in list.iter() {
        unique_list.push(*item);
    }
    drop(borrowed_heap);
    Ok(heap.borrow_mut().insert_list(unique_list))
}
crate::kproof!(cut, 6, fn m66_unique_copy2() {
    let a: f64 = kani::any();
    let l = arena::list_cell(vec![Value::Number(a)]);
    let heap = arena::heap();
    let _ = unique_copy2(crate::av![l], heap.clone());
    std::mem::forget(heap);
});
crate::kproof!(cut, 6, fn m67_push_from_other_vec() {
    let a: f64 = kani::any();
    let src_v = vec![Value::Number(a)];
    let mut v: Vec<Value> = vec![];
    for item in src_v.iter() { v.push(*item); }
    std::mem::forget((v, src_v));
});
crate::kproof!(cut, 6, fn m68_push_from_heap_list() {
    let a: f64 = kani::any();
    let l = arena::list_cell(vec![Value::Number(a)]);
    let heap = arena::heap();
    let mut v: Vec<Value> = vec![];
    {
        let h = heap.borrow();
        let list = match l.as_list(&h) { Ok(x) => x, Err(_) => panic!() };
        for item in list.iter() { v.push(*item); }
    }
    std::mem::forget(v);
    std::mem::forget(heap);
});
crate::kproof!(cut, 6, fn m69_push_then_insert() {
    let a: f64 = kani::any();
    let heap = arena::heap();
    let mut v: Vec<Value> = vec![];
    v.push(Value::Number(a));
    let r = heap.borrow_mut().insert_list(v);
    std::mem::forget(heap);
});
crate::kproof!(cut, 6, fn m70_unique_copy2_vecargs() {
    let a: f64 = kani::any();
    let l = arena::list_cell(vec![Value::Number(a)]);
    let heap = arena::heap();
    let _ = unique_copy2(vec![l], heap.clone());
    std::mem::forget(heap);
});
fn unique_copy3(l: Value, heap: std::rc::Rc<std::cell::RefCell<Heap>>) -> Result<Value, blots_core::error::RuntimeError> {
    let mut unique_list = vec![];
    let borrowed_heap = heap.borrow();
    let list = l.as_list(&borrowed_heap)?;
    for item in list.iter() {
        unique_list.push(*item);
    }
    drop(borrowed_heap);
    Ok(Value::Null)
}
crate::kproof!(cut, 6, fn m71_unique_copy3() {
    let a: f64 = kani::any();
    let l = arena::list_cell(vec![Value::Number(a)]);
    let heap = arena::heap();
    let _ = unique_copy3(l, heap.clone());
    std::mem::forget(heap);
});
#[cfg(kani)]
#[kani::proof]
#[kani::unwind(12)]
#[kani::stub(std::hash::RandomState::new, crate::util::stub_random_state_new)]
fn m80_expr_to_source_text() {
    use blots_core::ast::*;
    let e = sp(Expr::UnaryOp { op: UnaryOp::Negate, expr: arena::bx(arena::binop_e(BinaryOp::Add, Expr::Identifier(String::from("x")), Expr::Identifier(String::from("y")))) });
    let s = blots_core::ast_to_source::expr_to_source(&e);
    let b = s.as_bytes();
    assert!(b.len() >= 2 && b[0] == b'-' && b[1] == b'(');
    std::mem::forget((e, s));
}
crate::kproof!(cut, 20, fn m41_lambda_call_opt_then_req() {
    use blots_core::ast::*;
    use blots_core::values::{CapturedScope, LambdaArg, LambdaDef};
    let a: f64 = kani::any();
    let def = blots_core::functions::FunctionDef::Lambda(LambdaDef {
        name: None,
        args: vec![LambdaArg::Optional(String::from("a")), LambdaArg::Required(String::from("b"))],
        body: sp(Expr::Null),
        scope: CapturedScope::new(std::collections::HashMap::new()),
        source: src(),
    });
    let heap = arena::heap();
    let r = def.call(Value::Null, crate::av![Value::Number(a)], heap.clone(), arena::env(), 0, "");
    std::mem::forget((def, heap));
});
crate::kproof!(noerr, 20, fn m42_lambda_call_returns_param() {
    use blots_core::ast::*;
    use blots_core::values::{CapturedScope, LambdaArg, LambdaDef};
    let (a, b): (f64, f64) = (kani::any(), kani::any());
    let def = blots_core::functions::FunctionDef::Lambda(LambdaDef {
        name: None,
        args: vec![LambdaArg::Required(String::from("a")), LambdaArg::Required(String::from("b"))],
        body: sp(Expr::Identifier(String::from("b"))),
        scope: CapturedScope::new(std::collections::HashMap::new()),
        source: src(),
    });
    let heap = arena::heap();
    let r = def.call(Value::Null, crate::av![Value::Number(a), Value::Number(b)], heap.clone(), arena::env(), 0, "");
    match r { Ok(v) => assert!(same_value(v, Value::Number(b))), Err(_) => panic!("call failed") }
    kani::cover!(true, "reach-end");
    std::mem::forget((def, heap));
});
macro_rules! m43 {
    ($name:ident, $args:expr, $body:expr, $vals:expr) => {
        crate::kproof!(noerr, 20, fn $name() {
            use blots_core::ast::*;
            use blots_core::values::{CapturedScope, LambdaArg, LambdaDef};
            let (a, b): (f64, f64) = (kani::any(), kani::any());
            let def = blots_core::functions::FunctionDef::Lambda(LambdaDef {
                name: None, args: $args, body: sp($body),
                scope: CapturedScope::new(std::collections::HashMap::new()), source: src(),
            });
            let heap = arena::heap();
            let mk: fn(f64, f64) -> Vec<Value> = $vals;
            let r = def.call(Value::Null, mk(a, b), heap.clone(), arena::env(), 0, "");
            match r { Ok(_) => {}, Err(_) => panic!("call failed") }
            kani::cover!(true, "reach-end");
            std::mem::forget((def, heap));
        });
    };
}
m43!(m43_one_param_get, vec![LambdaArg::Required(String::from("b"))], Expr::Identifier(String::from("b")), |a, _b| crate::av![Value::Number(a)]);
m43!(m43_two_params_noget, vec![LambdaArg::Required(String::from("a")), LambdaArg::Required(String::from("b"))], Expr::Null, |a, b| crate::av![Value::Number(a), Value::Number(b)]);
m43!(m43_no_params, vec![], Expr::Null, |_a, _b| crate::av![]);
#[inline(never)]
fn peek_body(d: &blots_core::functions::FunctionDef) -> u32 {
    match d {
        blots_core::functions::FunctionDef::Lambda(l) => { if !matches!(l.body.node, blots_core::ast::Expr::Null) { marker(5) } else { 0 } }
        _ => marker(5),
    }
}
crate::kproof!(noerr, 6, fn m44_lambda_def_body_tag() {
    use blots_core::ast::*;
    use blots_core::values::{CapturedScope, LambdaArg, LambdaDef};
    let def = blots_core::functions::FunctionDef::Lambda(LambdaDef {
        name: None, args: vec![], body: sp(Expr::Null),
        scope: CapturedScope::new(std::collections::HashMap::new()), source: src(),
    });
    let _ = peek_body(&def);
    std::mem::forget(def);
});
pub fn stub_evaluate_ast_null(
    _e: &blots_core::ast::SpannedExpr,
    _h: std::rc::Rc<std::cell::RefCell<Heap>>,
    _b: std::rc::Rc<blots_core::environment::Environment>,
    _d: usize,
    _s: std::rc::Rc<str>,
) -> Result<Value, blots_core::error::RuntimeError> {
    Ok(Value::Null)
}
macro_rules! m45 {
    ($name:ident, $args:expr, $vals:expr) => {
        #[cfg(kani)]
        #[kani::proof]
        #[kani::unwind(20)]
        #[kani::stub(std::hash::RandomState::new, crate::util::stub_random_state_new)]
        #[kani::stub(alloc::alloc::dealloc, crate::util::stub_dealloc)]
        #[kani::stub(alloc::alloc::dealloc_nonnull, crate::util::stub_dealloc_nonnull)]
        #[kani::stub(std::backtrace::Backtrace::capture, crate::util::stub_backtrace_capture)]
        #[kani::stub(alloc::fmt::format, crate::util::stub_format)]
        #[kani::stub(std::time::Instant::now, crate::util::stub_instant_now)]
        #[kani::stub(std::sync::Mutex::lock, crate::util::stub_mutex_lock)]
        #[kani::stub(::anyhow::Error::msg, crate::util::stub_anyhow_msg_cut)]
        #[kani::stub(::anyhow::__private::format_err, crate::util::stub_anyhow_format_err_cut)]
        #[kani::stub(blots_core::expressions::evaluate_ast, stub_evaluate_ast_null)]
        fn $name() {
            use blots_core::ast::*;
            use blots_core::values::{CapturedScope, LambdaArg, LambdaDef};
            let (a, b): (f64, f64) = (kani::any(), kani::any());
            let def = blots_core::functions::FunctionDef::Lambda(LambdaDef {
                name: None, args: $args, body: sp(Expr::Null),
                scope: CapturedScope::new(std::collections::HashMap::new()), source: src(),
            });
            let heap = arena::heap();
            let mk: fn(f64, f64) -> Vec<Value> = $vals;
            let r = def.call(Value::Null, mk(a, b), heap.clone(), arena::env(), 0, "");
            kani::cover!(r.is_ok(), "call returns");
            std::mem::forget((def, heap));
        }
    };
}
m45!(m45_req_req_2, vec![LambdaArg::Required(String::from("a")), LambdaArg::Required(String::from("b"))], |a, b| crate::av![Value::Number(a), Value::Number(b)]);
m45!(m45_opt_req_1, vec![LambdaArg::Optional(String::from("a")), LambdaArg::Required(String::from("b"))], |a, _b| crate::av![Value::Number(a)]);
crate::kproof!(cut, 6, fn m90_chunk_list1_any() {
    let (a, p): (f64, f64) = (kani::any(), kani::any());
    let l = arena::list_cell(vec![Value::Number(a)]);
    let heap = arena::heap();
    let _ = BB::Chunk.call(crate::av![l, Value::Number(p)], heap.clone(), arena::env(), 0, "");
    std::mem::forget(heap);
});
crate::kproof!(cut, 6, fn m91_slice_list2_any() {
    let (a, b, s, t): (f64, f64, f64, f64) = (kani::any(), kani::any(), kani::any(), kani::any());
    let l = arena::list_cell(vec![Value::Number(a), Value::Number(b)]);
    let heap = arena::heap();
    let _ = BB::Slice.call(crate::av![l, Value::Number(s), Value::Number(t)], heap.clone(), arena::env(), 0, "");
    std::mem::forget(heap);
});
crate::kproof!(cut, 6, fn m92_percentile_list2_any() {
    let (a, b, p): (f64, f64, f64) = (kani::any(), kani::any(), kani::any());
    let l = arena::list_cell(vec![Value::Number(a), Value::Number(b)]);
    let heap = arena::heap();
    let _ = BB::Percentile.call(crate::av![l, Value::Number(p)], heap.clone(), arena::env(), 0, "");
    std::mem::forget(heap);
});
