use crate::util::*;
use blots_core::heap::*;
use blots_core::values::*;

#[inline(never)]
fn marker(n: u32) -> u32 { if n == 0 { 0 } else { marker(n - 1) + 1 } }

#[cfg(kani)]
#[kani::proof]
#[kani::unwind(7)]
#[kani::stub(std::hash::RandomState::new, crate::util::stub_random_state_new)]
fn m20_iter_len_via_heap() {
    let (a, b, c): (f64, f64, f64) = (kani::any(), kani::any(), kani::any());
    let l = arena::list_cell(vec![Value::Number(a), Value::Number(b), Value::Number(c)]);
    let heap = arena::heap();
    let h = heap.borrow();
    let list = match l { Value::List(p) => match p.reify(&h) { HeapValue::List(v) => v, _ => panic!() }, _ => panic!() };
    let mut k = 0;
    for x in list.iter() {
        k += 1;
        if k > 3 { marker(kani::any()); }
        if !matches!(x, Value::Number(_)) { marker(kani::any()); }
    }
    drop(h);
    std::mem::forget(heap);
}
#[cfg(kani)]
#[kani::proof]
#[kani::unwind(7)]
#[kani::stub(std::hash::RandomState::new, crate::util::stub_random_state_new)]
fn m21_collect_result() {
    let (a, b, c): (f64, f64, f64) = (kani::any(), kani::any(), kani::any());
    let v = vec![Value::Number(a), Value::Number(b), Value::Number(c)];
    let r: Result<Vec<f64>, u8> = v.iter().map(|x| match x { Value::Number(n) => Ok(*n), _ => Err(1u8) }).collect();
    match r { Ok(w) => { if w.len() != 3 { marker(kani::any()); } }, Err(_) => { marker(kani::any()); } }
    std::mem::forget(v);
}
crate::kproof!(noerr, 7, fn m22_min_list_call() {
    let (a, b, c): (f64, f64, f64) = (kani::any(), kani::any(), kani::any());
    let l = arena::list_cell(vec![Value::Number(a), Value::Number(b), Value::Number(c)]);
    let heap = arena::heap();
    let r = blots_core::functions::BuiltInFunction::Min.call(arena::vals1(l), heap.clone(), arena::env(), 0, "");
    match r { Ok(_) => {}, Err(_) => { marker(kani::any()); } }
    std::mem::forget(heap);
});
#[cfg(kani)]
#[kani::proof]
#[kani::unwind(7)]
#[kani::stub(alloc::alloc::dealloc, crate::util::stub_dealloc)]
fn m23_vec_value_payload() {
    let a: f64 = kani::any();
    let l = arena::list_cell(vec![Value::Number(a)]);
    let args = arena::vals1(l);
    let idx = match args[0] { Value::List(p) => p.index(), _ => 99 };
    if idx != 0 { marker(kani::any()); }
    std::mem::forget(args);
}
#[cfg(kani)]
#[kani::proof]
#[kani::unwind(7)]
#[kani::stub(std::hash::RandomState::new, crate::util::stub_random_state_new)]
fn m24_as_list_via_args() {
    let a: f64 = kani::any();
    let l = arena::list_cell(vec![Value::Number(a)]);
    let heap = arena::heap();
    let args = vec![l];
    {
        let h = heap.borrow();
        match h.get(match args[0] { Value::List(p) => p.index(), _ => 99 }) {
            Some(HeapValue::List(v)) => { if v.len() != 1 { marker(kani::any()); } if !matches!(v[0], Value::Number(_)) { marker(kani::any()); } }
            _ => { marker(kani::any()); }
        }
    }
    std::mem::forget(args);
    std::mem::forget(heap);
}
crate::kproof!(cut, 6, fn m30_percentile_empty() {
    let p: f64 = kani::any();
    let l = arena::list_cell(vec![]);
    let heap = arena::heap();
    let _ = blots_core::functions::BuiltInFunction::Percentile.call(crate::av![l, Value::Number(p)], heap.clone(), arena::env(), 0, "");
    std::mem::forget(heap);
});
crate::kproof!(cut, 6, fn m31_chunk_empty() {
    let p: f64 = kani::any();
    let l = arena::list_cell(vec![]);
    let heap = arena::heap();
    let _ = blots_core::functions::BuiltInFunction::Chunk.call(crate::av![l, Value::Number(p)], heap.clone(), arena::env(), 0, "");
    std::mem::forget(heap);
});
crate::kproof!(cut, 6, fn m32_includes_empty() {
    let p: f64 = kani::any();
    let l = arena::list_cell(vec![]);
    let heap = arena::heap();
    let _ = blots_core::functions::BuiltInFunction::Includes.call(crate::av![l, Value::Number(p)], heap.clone(), arena::env(), 0, "");
    std::mem::forget(heap);
});
crate::kproof!(noerr, 20, fn m40_env_insert_get() {
    let a: f64 = kani::any();
    let env = blots_core::environment::Environment::new();
    env.insert(String::from("x"), Value::Number(a));
    match env.get("x") { Some(Value::Number(v)) => assert!(v.to_bits() == a.to_bits()), _ => panic!("lost binding") }
    assert!(env.get("y").is_none());
    assert!(env.contains_key("x") && !env.contains_key("y"));
    kani::cover!(true, "reach-end");
    std::mem::forget(env);
});
macro_rules! m50 {
    ($name:ident, $f:expr) => {
        crate::kproof!(cut, 6, fn $name() {
            let (a, b): (f64, f64) = (kani::any(), kani::any());
            let l = arena::list_cell(vec![Value::Number(a), Value::Number(b)]);
            let heap = arena::heap();
            let _ = $f.call(crate::av![l], heap.clone(), arena::env(), 0, "");
            std::mem::forget(heap);
        });
    };
}
use blots_core::functions::BuiltInFunction as BB;
m50!(m50_len, BB::Len); m50!(m50_head, BB::Head); m50!(m50_tail, BB::Tail); m50!(m50_unique, BB::Unique); m50!(m50_sort, BB::Sort);
m50!(m50_reverse, BB::Reverse); m50!(m50_any, BB::Any); m50!(m50_all, BB::All); m50!(m50_flatten, BB::Flatten);
#[cfg(kani)]
#[kani::proof]
#[kani::unwind(6)]
fn m60_empty_vec_plain() {
    let a: f64 = kani::any();
    let mut v: Vec<Value> = vec![];
    for x in &v { if matches!(x, Value::Null) { marker(1); } }
    v.push(Value::Number(a));
    for x in &v { if matches!(x, Value::Null) { marker(1); } }
    v.push(Value::Number(a));
    std::mem::forget(v);
}
crate::kproof!(cut, 6, fn m61_empty_vec_stubs() {
    let a: f64 = kani::any();
    let mut v: Vec<Value> = vec![];
    for x in &v { if matches!(x, Value::Null) { marker(1); } }
    v.push(Value::Number(a));
    for x in &v { if matches!(x, Value::Null) { marker(1); } }
    v.push(Value::Number(a));
    std::mem::forget(v);
});
crate::kproof!(noerr, 6, fn m62_unique_noerr() {
    let (a, b): (f64, f64) = (kani::any(), kani::any());
    let l = arena::list_cell(vec![Value::Number(a), Value::Number(b)]);
    let heap = arena::heap();
    let _ = BB::Unique.call(crate::av![l], heap.clone(), arena::env(), 0, "");
    std::mem::forget(heap);
});
crate::kproof!(cut, 6, fn m63_unique_one() {
    let a: f64 = kani::any();
    let l = arena::list_cell(vec![Value::Number(a)]);
    let heap = arena::heap();
    let _ = BB::Unique.call(crate::av![l], heap.clone(), arena::env(), 0, "");
    std::mem::forget(heap);
});
crate::kproof!(cut, 6, fn m64_unique_vecargs() {
    let (a, b): (f64, f64) = (kani::any(), kani::any());
    let l = arena::list_cell(vec![Value::Number(a), Value::Number(b)]);
    let heap = arena::heap();
    let _ = BB::Unique.call(vec![l], heap.clone(), arena::env(), 0, "");
    std::mem::forget(heap);
});
fn unique_copy(args: Vec<Value>, heap: std::rc::Rc<std::cell::RefCell<Heap>>) -> Result<Value, blots_core::error::RuntimeError> {
    let mut unique_list = vec![];
    let borrowed_heap = heap.borrow();
    let list = args[0].as_list(&borrowed_heap)?;
    for item in list.iter() {
        let mut is_duplicate = false;
        for existing in &unique_list {
            if item.equals(existing, &borrowed_heap)? {
                is_duplicate = true;
                break;
            }
        }
        if !is_duplicate {
            unique_list.push(*item);
        }
    }
    drop(borrowed_heap);
    Ok(heap.borrow_mut().insert_list(unique_list))
}
crate::kproof!(cut, 6, fn m65_unique_copy() {
    let a: f64 = kani::any();
    let l = arena::list_cell(vec![Value::Number(a)]);
    let heap = arena::heap();
    let _ = unique_copy(crate::av![l], heap.clone());
    std::mem::forget(heap);
});
fn unique_copy2(args: Vec<Value>, heap: std::rc::Rc<std::cell::RefCell<Heap>>) -> Result<Value, blots_core::error::RuntimeError> {
    let mut unique_list = vec![];
    let borrowed_heap = heap.borrow();
    let list = args[0].as_list(&borrowed_heap)?;
    for item in list.iter() {
        unique_list.push(*item);
    }
    drop(borrowed_heap);
    Ok(heap.borrow_mut().insert_list(unique_list))
}
crate::kproof!(cut, 6, fn m66_unique_copy2() {
    let a: f64 = kani::any();
    let l = arena::list_cell(vec![Value::Number(a)]);
    let heap = arena::heap();
    let _ = unique_copy2(crate::av![l], heap.clone());
    std::mem::forget(heap);
});
crate::kproof!(cut, 6, fn m67_push_from_other_vec() {
    let a: f64 = kani::any();
    let src_v = vec![Value::Number(a)];
    let mut v: Vec<Value> = vec![];
    for item in src_v.iter() { v.push(*item); }
    std::mem::forget((v, src_v));
});
crate::kproof!(cut, 6, fn m68_push_from_heap_list() {
    let a: f64 = kani::any();
    let l = arena::list_cell(vec![Value::Number(a)]);
    let heap = arena::heap();
    let mut v: Vec<Value> = vec![];
    {
        let h = heap.borrow();
        let list = match l.as_list(&h) { Ok(x) => x, Err(_) => panic!() };
        for item in list.iter() { v.push(*item); }
    }
    std::mem::forget(v);
    std::mem::forget(heap);
});
crate::kproof!(cut, 6, fn m69_push_then_insert() {
    let a: f64 = kani::any();
    let heap = arena::heap();
    let mut v: Vec<Value> = vec![];
    v.push(Value::Number(a));
    let r = heap.borrow_mut().insert_list(v);
    std::mem::forget(heap);
});
crate::kproof!(cut, 6, fn m70_unique_copy2_vecargs() {
    let a: f64 = kani::any();
    let l = arena::list_cell(vec![Value::Number(a)]);
    let heap = arena::heap();
    let _ = unique_copy2(vec![l], heap.clone());
    std::mem::forget(heap);
});
fn unique_copy3(l: Value, heap: std::rc::Rc<std::cell::RefCell<Heap>>) -> Result<Value, blots_core::error::RuntimeError> {
    let mut unique_list = vec![];
    let borrowed_heap = heap.borrow();
    let list = l.as_list(&borrowed_heap)?;
    for item in list.iter() {
        unique_list.push(*item);
    }
    drop(borrowed_heap);
    Ok(Value::Null)
}
crate::kproof!(cut, 6, fn m71_unique_copy3() {
    let a: f64 = kani::any();
    let l = arena::list_cell(vec![Value::Number(a)]);
    let heap = arena::heap();
    let _ = unique_copy3(l, heap.clone());
    std::mem::forget(heap);
});
#[cfg(kani)]
#[kani::proof]
#[kani::unwind(12)]
#[kani::stub(std::hash::RandomState::new, crate::util::stub_random_state_new)]
fn m80_expr_to_source_text() {
    use blots_core::ast::*;
    let e = sp(Expr::UnaryOp { op: UnaryOp::Negate, expr: arena::bx(arena::binop_e(BinaryOp::Add, Expr::Identifier(String::from("x")), Expr::Identifier(String::from("y")))) });
    let s = blots_core::ast_to_source::expr_to_source(&e);
    let b = s.as_bytes();
    assert!(b.len() >= 2 && b[0] == b'-' && b[1] == b'(');
    std::mem::forget((e, s));
}
crate::kproof!(cut, 20, fn m41_lambda_call_opt_then_req() {
    use blots_core::ast::*;
    use blots_core::values::{CapturedScope, LambdaArg, LambdaDef};
    let a: f64 = kani::any();
    let def = blots_core::functions::FunctionDef::Lambda(LambdaDef {
        name: None,
        args: vec![LambdaArg::Optional(String::from("a")), LambdaArg::Required(String::from("b"))],
        body: sp(Expr::Null),
        scope: CapturedScope::new(std::collections::HashMap::new()),
        source: src(),
    });
    let heap = arena::heap();
    let r = def.call(Value::Null, crate::av![Value::Number(a)], heap.clone(), arena::env(), 0, "");
    std::mem::forget((def, heap));
});
crate::kproof!(noerr, 20, fn m42_lambda_call_returns_param() {
    use blots_core::ast::*;
    use blots_core::values::{CapturedScope, LambdaArg, LambdaDef};
    let (a, b): (f64, f64) = (kani::any(), kani::any());
    let def = blots_core::functions::FunctionDef::Lambda(LambdaDef {
        name: None,
        args: vec![LambdaArg::Required(String::from("a")), LambdaArg::Required(String::from("b"))],
        body: sp(Expr::Identifier(String::from("b"))),
        scope: CapturedScope::new(std::collections::HashMap::new()),
        source: src(),
    });
    let heap = arena::heap();
    let r = def.call(Value::Null, crate::av![Value::Number(a), Value::Number(b)], heap.clone(), arena::env(), 0, "");
    match r { Ok(v) => assert!(same_value(v, Value::Number(b))), Err(_) => panic!("call failed") }
    kani::cover!(true, "reach-end");
    std::mem::forget((def, heap));
});
macro_rules! m43 {
    ($name:ident, $args:expr, $body:expr, $vals:expr) => {
        crate::kproof!(noerr, 20, fn $name() {
            use blots_core::ast::*;
            use blots_core::values::{CapturedScope, LambdaArg, LambdaDef};
            let (a, b): (f64, f64) = (kani::any(), kani::any());
            let def = blots_core::functions::FunctionDef::Lambda(LambdaDef {
                name: None, args: $args, body: sp($body),
                scope: CapturedScope::new(std::collections::HashMap::new()), source: src(),
            });
            let heap = arena::heap();
            let mk: fn(f64, f64) -> Vec<Value> = $vals;
            let r = def.call(Value::Null, mk(a, b), heap.clone(), arena::env(), 0, "");
            match r { Ok(_) => {}, Err(_) => panic!("call failed") }
            kani::cover!(true, "reach-end");
            std::mem::forget((def, heap));
        });
    };
}
m43!(m43_one_param_get, vec![LambdaArg::Required(String::from("b"))], Expr::Identifier(String::from("b")), |a, _b| crate::av![Value::Number(a)]);
m43!(m43_two_params_noget, vec![LambdaArg::Required(String::from("a")), LambdaArg::Required(String::from("b"))], Expr::Null, |a, b| crate::av![Value::Number(a), Value::Number(b)]);
m43!(m43_no_params, vec![], Expr::Null, |_a, _b| crate::av![]);
#[inline(never)]
fn peek_body(d: &blots_core::functions::FunctionDef) -> u32 {
    match d {
        blots_core::functions::FunctionDef::Lambda(l) => { if !matches!(l.body.node, blots_core::ast::Expr::Null) { marker(5) } else { 0 } }
        _ => marker(5),
    }
}
crate::kproof!(noerr, 6, fn m44_lambda_def_body_tag() {
    use blots_core::ast::*;
    use blots_core::values::{CapturedScope, LambdaArg, LambdaDef};
    let def = blots_core::functions::FunctionDef::Lambda(LambdaDef {
        name: None, args: vec![], body: sp(Expr::Null),
        scope: CapturedScope::new(std::collections::HashMap::new()), source: src(),
    });
    let _ = peek_body(&def);
    std::mem::forget(def);
});
pub fn stub_evaluate_ast_null(
    _e: &blots_core::ast::SpannedExpr,
    _h: std::rc::Rc<std::cell::RefCell<Heap>>,
    _b: std::rc::Rc<blots_core::environment::Environment>,
    _d: usize,
    _s: std::rc::Rc<str>,
) -> Result<Value, blots_core::error::RuntimeError> {
    Ok(Value::Null)
}
macro_rules! m45 {
    ($name:ident, $args:expr, $vals:expr) => {
        #[cfg(kani)]
        #[kani::proof]
        #[kani::unwind(20)]
        #[kani::stub(std::hash::RandomState::new, crate::util::stub_random_state_new)]
        #[kani::stub(alloc::alloc::dealloc, crate::util::stub_dealloc)]
        #[kani::stub(alloc::alloc::dealloc_nonnull, crate::util::stub_dealloc_nonnull)]
        #[kani::stub(std::backtrace::Backtrace::capture, crate::util::stub_backtrace_capture)]
        #[kani::stub(alloc::fmt::format, crate::util::stub_format)]
        #[kani::stub(std::time::Instant::now, crate::util::stub_instant_now)]
        #[kani::stub(std::sync::Mutex::lock, crate::util::stub_mutex_lock)]
        #[kani::stub(::anyhow::Error::msg, crate::util::stub_anyhow_msg_cut)]
        #[kani::stub(::anyhow::__private::format_err, crate::util::stub_anyhow_format_err_cut)]
        #[kani::stub(blots_core::expressions::evaluate_ast, stub_evaluate_ast_null)]
        fn $name() {
            use blots_core::ast::*;
            use blots_core::values::{CapturedScope, LambdaArg, LambdaDef};
            let (a, b): (f64, f64) = (kani::any(), kani::any());
            let def = blots_core::functions::FunctionDef::Lambda(LambdaDef {
                name: None, args: $args, body: sp(Expr::Null),
                scope: CapturedScope::new(std::collections::HashMap::new()), source: src(),
            });
            let heap = arena::heap();
            let mk: fn(f64, f64) -> Vec<Value> = $vals;
            let r = def.call(Value::Null, mk(a, b), heap.clone(), arena::env(), 0, "");
            kani::cover!(r.is_ok(), "call returns");
            std::mem::forget((def, heap));
        }
    };
}
m45!(m45_req_req_2, vec![LambdaArg::Required(String::from("a")), LambdaArg::Required(String::from("b"))], |a, b| crate::av![Value::Number(a), Value::Number(b)]);
m45!(m45_opt_req_1, vec![LambdaArg::Optional(String::from("a")), LambdaArg::Required(String::from("b"))], |a, _b| crate::av![Value::Number(a)]);
crate::kproof!(cut, 6, fn m90_chunk_list1_any() {
    let (a, p): (f64, f64) = (kani::any(), kani::any());
    let l = arena::list_cell(vec![Value::Number(a)]);
    let heap = arena::heap();
    let _ = BB::Chunk.call(crate::av![l, Value::Number(p)], heap.clone(), arena::env(), 0, "");
    std::mem::forget(heap);
});
crate::kproof!(cut, 6, fn m91_slice_list2_any() {
    let (a, b, s, t): (f64, f64, f64, f64) = (kani::any(), kani::any(), kani::any(), kani::any());
    let l = arena::list_cell(vec![Value::Number(a), Value::Number(b)]);
    let heap = arena::heap();
    let _ = BB::Slice.call(crate::av![l, Value::Number(s), Value::Number(t)], heap.clone(), arena::env(), 0, "");
    std::mem::forget(heap);
});
crate::kproof!(cut, 6, fn m92_percentile_list2_any() {
    let (a, b, p): (f64, f64, f64) = (kani::any(), kani::any(), kani::any());
    let l = arena::list_cell(vec![Value::Number(a), Value::Number(b)]);
    let heap = arena::heap();
    let _ = BB::Percentile.call(crate::av![l, Value::Number(p)], heap.clone(), arena::env(), 0, "");
    std::mem::forget(heap);
});

// ---- why is Expr::Call / Into through evaluate_ast slow even with FunctionDef::call stubbed? ----
use blots_core::ast::*;
use blots_core::expressions::evaluate_ast;
use blots_core::functions::BuiltInFunction as BF;
macro_rules! probe_callstub {
    ($name:ident, $body:block) => {
        #[cfg(kani)]
        #[kani::proof]
        #[kani::unwind(5)]
        #[kani::stub(std::hash::RandomState::new, crate::util::stub_random_state_new)]
        #[kani::stub(alloc::alloc::dealloc, crate::util::stub_dealloc)]
        #[kani::stub(alloc::alloc::dealloc_nonnull, crate::util::stub_dealloc_nonnull)]
        #[kani::stub(alloc::alloc::realloc, crate::util::stub_realloc)]
        #[kani::stub(alloc::alloc::realloc_nonnull, crate::util::stub_realloc_nonnull)]
        #[kani::stub(std::backtrace::Backtrace::capture, crate::util::stub_backtrace_capture)]
        #[kani::stub(alloc::fmt::format, crate::util::stub_format)]
        #[kani::stub(blots_core::values::Value::stringify, crate::util::stub_stringify)]
        #[kani::stub(blots_core::units::convert, crate::util::stub_units_convert)]
        #[kani::stub(::anyhow::Error::msg, crate::util::stub_anyhow_msg_panic)]
        #[kani::stub(::anyhow::__private::format_err, crate::util::stub_anyhow_format_err_panic)]
        #[kani::stub(std::time::Instant::now, crate::util::stub_instant_now)]
        #[kani::stub(std::sync::Mutex::lock, crate::util::stub_mutex_lock)]
        #[kani::stub(blots_core::functions::FunctionDef::call, crate::util::stub_function_def_call_record_depth)]
        fn $name() $body
    };
}
probe_callstub!(m95_call_only_concrete_depth, {
    let x: f64 = kani::any();
    let heap = arena::heap();
    let bare = arena::call(Expr::BuiltIn(BF::Abs), arena::args1(num(x)));
    let r0 = evaluate_ast(&bare, heap.clone(), arena::env(), 0, src());
    assert!(r0.is_ok());
    std::mem::forget(bare);
    std::mem::forget(heap);
});
probe_callstub!(m96_into_only_concrete_depth, {
    let x: f64 = kani::any();
    let heap = arena::heap();
    let e = arena::binop(BinaryOp::Into, num(x), Expr::BuiltIn(BF::Abs));
    let r0 = evaluate_ast(&e, heap.clone(), arena::env(), 0, src());
    assert!(r0.is_ok());
    std::mem::forget(e);
    std::mem::forget(heap);
});
probe_callstub!(m97_builtin_expr_only, {
    let heap = arena::heap();
    let e = sp(Expr::BuiltIn(BF::Abs));
    let r0 = evaluate_ast(&e, heap.clone(), arena::env(), 0, src());
    assert!(matches!(r0, Ok(Value::BuiltIn(BF::Abs))));
    std::mem::forget(e);
    std::mem::forget(heap);
});
probe_callstub!(m98_add_of_two_numbers, {
    let x: f64 = kani::any();
    let heap = arena::heap();
    let e = arena::binop(BinaryOp::Add, num(x), num(1.0));
    let r0 = evaluate_ast(&e, heap.clone(), arena::env(), 0, src());
    assert!(r0.is_ok());
    std::mem::forget(e);
    std::mem::forget(heap);
});
probe_callstub!(m95b_call_no_args, {
    let heap = arena::heap();
    let bare = arena::call(Expr::BuiltIn(BF::Abs), Vec::new());
    let r0 = evaluate_ast(&bare, heap.clone(), arena::env(), 0, src());
    assert!(r0.is_ok());
    std::mem::forget(bare);
    std::mem::forget(heap);
});
probe_callstub!(m95c_call_marker_on_arg_tag, {
    let x: f64 = kani::any();
    let e = Expr::Call { func: Box::new(sp(Expr::BuiltIn(BF::Abs))), args: vec![sp(num(x))] };
    match &e {
        Expr::Call { func, args } => {
            assert!(args.len() == 1, "P args len (plain heap)");
            assert!(matches!(func.node, Expr::BuiltIn(_)), "P func tag (plain heap)");
            assert!(matches!(args[0].node, Expr::Number(_)), "P arg tag (plain heap)");
        }
        _ => panic!("call tag"),
    }
    std::mem::forget(e);
    let args = arena::args1(num(x));
    let f = arena::bx(Expr::BuiltIn(BF::Abs));
    let fp = &*f as *const SpannedExpr as usize;
    let ap = args.as_ptr() as usize;
    let e = Expr::Call { func: f, args };
    match &e {
        Expr::Call { func, args } => {
            assert!(&**func as *const SpannedExpr as usize == fp, "Q func pointer preserved");
            assert!(args.as_ptr() as usize == ap, "Q args pointer preserved");
            assert!(args.len() == 1, "Q args len");
            assert!(args.capacity() == 1, "Q args cap");
        }
        _ => panic!("call tag"),
    }
    std::mem::forget(e);
});

// ---- Kani layout probe: struct-like enum variant mixing a Box and a Vec --------------------------
#[repr(u64)]
pub enum TU { A(u64), C { f: Box<u64>, v: Vec<u64> }, D { v: Vec<u64>, f: Box<u64> }, E { f: Box<u64>, g: Box<u64>, h: Box<u64> } }
pub enum TR { A(u64), C { f: Box<u64>, v: Vec<u64> }, D { v: Vec<u64>, f: Box<u64> } }
#[cfg(kani)]
#[kani::proof]
#[kani::unwind(3)]
fn m99_enum_variant_layout() {
    let b = Box::new(7u64);
    let bp = &*b as *const u64 as usize;
    let v = vec![1u64];
    let vp = v.as_ptr() as usize;
    let e = TU::C { f: b, v };
    match &e {
        TU::C { f, v } => {
            assert!(&**f as *const u64 as usize == bp, "TU::C f preserved");
            assert!(v.as_ptr() as usize == vp, "TU::C v preserved");
            assert!(v.len() == 1, "TU::C len");
        }
        _ => panic!("tag"),
    }
    std::mem::forget(e);
    let b = Box::new(7u64);
    let bp = &*b as *const u64 as usize;
    let v = vec![1u64];
    let vp = v.as_ptr() as usize;
    let e = TU::D { v, f: b };
    match &e {
        TU::D { f, v } => {
            assert!(&**f as *const u64 as usize == bp, "TU::D f preserved");
            assert!(v.as_ptr() as usize == vp, "TU::D v preserved");
        }
        _ => panic!("tag"),
    }
    std::mem::forget(e);
    let b = Box::new(7u64);
    let bp = &*b as *const u64 as usize;
    let v = vec![1u64];
    let vp = v.as_ptr() as usize;
    let e = TR::C { f: b, v };
    match &e {
        TR::C { f, v } => {
            assert!(&**f as *const u64 as usize == bp, "TR::C f preserved");
            assert!(v.as_ptr() as usize == vp, "TR::C v preserved");
        }
        _ => panic!("tag"),
    }
    std::mem::forget(e);
    let (b1, b2, b3) = (Box::new(1u64), Box::new(2u64), Box::new(3u64));
    let (p1, p2, p3) = (&*b1 as *const u64 as usize, &*b2 as *const u64 as usize, &*b3 as *const u64 as usize);
    let e = TU::E { f: b1, g: b2, h: b3 };
    match &e {
        TU::E { f, g, h } => {
            assert!(&**f as *const u64 as usize == p1 && &**g as *const u64 as usize == p2 && &**h as *const u64 as usize == p3, "TU::E preserved");
        }
        _ => panic!("tag"),
    }
    std::mem::forget(e);
}

#[cfg(kani)]
#[kani::proof]
#[kani::unwind(3)]
fn m99b_expr_variant_layout() {
    fn bxp(e: Expr) -> (Box<SpannedExpr>, usize) {
        let b = Box::new(sp(e));
        let p = &*b as *const SpannedExpr as usize;
        (b, p)
    }
    // Conditional
    let (a, ap) = bxp(Expr::Null);
    let (b, bp) = bxp(Expr::Null);
    let (c, cp) = bxp(Expr::Null);
    let e = Expr::Conditional { condition: a, then_expr: b, else_expr: c };
    match &e {
        Expr::Conditional { condition, then_expr, else_expr } => {
            assert!(&**condition as *const SpannedExpr as usize == ap, "Conditional condition preserved");
            assert!(&**then_expr as *const SpannedExpr as usize == bp, "Conditional then preserved");
            assert!(&**else_expr as *const SpannedExpr as usize == cp, "Conditional else preserved");
        }
        _ => panic!("tag"),
    }
    std::mem::forget(e);
    // BinaryOp
    let (a, ap) = bxp(Expr::Null);
    let (b, bp) = bxp(Expr::Null);
    let e = Expr::BinaryOp { op: BinaryOp::Into, left: a, right: b };
    match &e {
        Expr::BinaryOp { op, left, right } => {
            assert!(matches!(op, BinaryOp::Into), "BinaryOp op preserved");
            assert!(&**left as *const SpannedExpr as usize == ap, "BinaryOp left preserved");
            assert!(&**right as *const SpannedExpr as usize == bp, "BinaryOp right preserved");
        }
        _ => panic!("tag"),
    }
    std::mem::forget(e);
    // Access
    let (a, ap) = bxp(Expr::Null);
    let (b, bp) = bxp(Expr::Null);
    let e = Expr::Access { expr: a, index: b };
    match &e {
        Expr::Access { expr, index } => {
            assert!(&**expr as *const SpannedExpr as usize == ap, "Access expr preserved");
            assert!(&**index as *const SpannedExpr as usize == bp, "Access index preserved");
        }
        _ => panic!("tag"),
    }
    std::mem::forget(e);
    // DoBlock
    let r = Box::new(Commented::new(sp(Expr::Null)));
    let rp = &*r as *const Commented<SpannedExpr> as usize;
    let v: Vec<Commented<SpannedExpr>> = Vec::new();
    let e = Expr::DoBlock { statements: v, return_expr: r };
    match &e {
        Expr::DoBlock { statements, return_expr } => {
            assert!(statements.len() == 0, "DoBlock statements preserved");
            assert!(&**return_expr as *const Commented<SpannedExpr> as usize == rp, "DoBlock return preserved");
        }
        _ => panic!("tag"),
    }
    std::mem::forget(e);
    // UnaryOp
    let (a, ap) = bxp(Expr::Null);
    let e = Expr::UnaryOp { op: UnaryOp::Negate, expr: a };
    match &e {
        Expr::UnaryOp { op, expr } => {
            assert!(matches!(op, UnaryOp::Negate), "UnaryOp op preserved");
            assert!(&**expr as *const SpannedExpr as usize == ap, "UnaryOp expr preserved");
        }
        _ => panic!("tag"),
    }
    std::mem::forget(e);
    // Call { func, args } built by projection writes over a dummy aggregate
    let (f, fp) = bxp(Expr::Null);
    let v: Vec<SpannedExpr> = vec![sp(Expr::Null)];
    let vp = v.as_ptr() as usize;
    let (dummy, _) = bxp(Expr::Null);
    let mut e = Expr::Call { func: dummy, args: Vec::new() };
    if let Expr::Call { func, args } = &mut e {
        unsafe {
            std::ptr::write(func, f);
            std::ptr::write(args, v);
        }
    }
    match &e {
        Expr::Call { func, args } => {
            assert!(&**func as *const SpannedExpr as usize == fp, "Call func preserved (projection writes)");
            assert!(args.as_ptr() as usize == vp, "Call args preserved (projection writes)");
            assert!(args.len() == 1, "Call args len (projection writes)");
        }
        _ => panic!("tag"),
    }
    let s = sp(e);
    match &s.node {
        Expr::Call { func, args } => {
            assert!(&**func as *const SpannedExpr as usize == fp, "Call func preserved after move into Spanned");
            assert!(args.as_ptr() as usize == vp, "Call args preserved after move into Spanned");
        }
        _ => panic!("tag"),
    }
    let b = Box::new(s);
    match &b.node {
        Expr::Call { func, args } => {
            assert!(&**func as *const SpannedExpr as usize == fp, "Call func preserved after move into Box");
            assert!(args.as_ptr() as usize == vp, "Call args preserved after move into Box");
        }
        _ => panic!("tag"),
    }
    std::mem::forget(b);
}

#[inline(never)]
fn marker2(n: u32) -> u32 { if n == 0 { 0 } else { marker2(n - 1) + 1 } }
#[inline(never)]
fn marker3(n: u32) -> u32 { if n == 0 { 0 } else { marker3(n - 1) + 1 } }
static mut TPL_NODE: SpannedExpr = Spanned { node: Expr::BuiltIn(BF::Abs), span: Span { start_byte: 0, end_byte: 0, start_line: 1, start_col: 1 } };
static mut TPL_CALL: Expr = Expr::Call { func: unsafe { std::mem::transmute::<*const SpannedExpr, Box<SpannedExpr>>(&raw const TPL_NODE) }, args: Vec::new() };
#[cfg(kani)]
#[kani::proof]
#[kani::unwind(3)]
fn m99c_call_tag_constancy() {
    // (1) projection-write workaround: is func's tag a symex constant?
    let e1 = arena::call_e(Expr::BuiltIn(BF::Abs), Vec::new());
    if let Expr::Call { func, args } = &e1 {
        if !matches!(func.node, Expr::BuiltIn(_)) { marker(kani::any()); }
        if args.len() != 0 { marker2(kani::any()); }
    } else { marker3(kani::any()); }
    std::mem::forget(e1);
}
#[cfg(kani)]
#[kani::proof]
#[kani::unwind(3)]
fn m99d_call_template_constancy() {
    // (2) const-initialised template read through projections
    let e2 = unsafe { std::ptr::read(&raw const TPL_CALL) };
    if let Expr::Call { func, args } = &e2 {
        assert!(matches!(func.node, Expr::BuiltIn(_)), "template func tag");
        assert!(args.len() == 0, "template args len");
        if !matches!(func.node, Expr::BuiltIn(_)) { marker(kani::any()); }
        if args.len() != 0 { marker2(kani::any()); }
    } else { marker3(kani::any()); }
    std::mem::forget(e2);
}
