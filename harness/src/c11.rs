//! C11: scalar operator semantics and the broadcasting law.
use crate::kproof;
use crate::util::*;
use blots_core::ast::*;
use blots_core::expressions::evaluate_ast;
use blots_core::values::*;

/// scalar number x number: result bit-identical to the IEEE reference
macro_rules! c11_num_num {
    ($name:ident, $op:expr, $reference:expr) => {
        kproof!(noerr, 3, fn $name() {
            let a: f64 = kani::any();
            let b: f64 = kani::any();
            let e = arena::binop($op, num(a), num(b));
            let heap = arena::heap();
            let r = evaluate_ast(&e, heap.clone(), arena::env(), 0, src());
            let f: fn(f64, f64) -> Value = $reference;
            match r {
                Ok(v) => assert!(same_value(v, f(a, b))),
                Err(_) => panic!("scalar operator failed on two numbers"),
            }
            kani::cover!(true, "reach-end");
            std::mem::forget(e);
            std::mem::forget(heap);
        });
    };
}
c11_num_num!(c11_q_num_add, BinaryOp::Add, |a, b| Value::Number(a + b));
c11_num_num!(c11_q_num_sub, BinaryOp::Subtract, |a, b| Value::Number(a - b));
c11_num_num!(c11_q_num_mul, BinaryOp::Multiply, |a, b| Value::Number(a * b));
c11_num_num!(c11_q_num_div, BinaryOp::Divide, |a, b| Value::Number(a / b));
c11_num_num!(c11_t_num_mod, BinaryOp::Modulo, |a, b| Value::Number(a % b));
c11_num_num!(c11_q_num_eq, BinaryOp::Equal, |a, b| Value::Bool(a == b));
c11_num_num!(c11_q_num_ne, BinaryOp::NotEqual, |a, b| Value::Bool(a != b));
c11_num_num!(c11_q_num_coalesce, BinaryOp::Coalesce, |a, _b| Value::Number(a));
