//! C11: scalar operator semantics and the broadcasting law.
//!
//! One harness per (operator, operand shape); operands are symbolic doubles / booleans.  The
//! reference is Rust's own IEEE operator applied per element in list order - operand *order*
//! and the choice of arm are what the harnesses pin down.
use crate::kproof;
use crate::util::*;
use blots_core::ast::*;
use blots_core::expressions::evaluate_ast;
use blots_core::values::*;

/// any double whose mantissa keeps only its top `bits` bits (sign, exponent, NaN/inf/zero and
/// subnormal classes all still occur).  Used where two copies of a multiplier/divider circuit
/// would otherwise have to be proved equivalent by the SAT solver.
#[cfg(kani)]
pub fn any_f64_m(bits: u32) -> f64 {
    let x: u64 = kani::any();
    f64::from_bits(x & !((1u64 << (52 - bits)) - 1))
}

pub fn ref_num(op: BinaryOp, a: f64, b: f64) -> Value {
    use BinaryOp::*;
    match op {
        Add => Value::Number(a + b),
        Subtract => Value::Number(a - b),
        Multiply => Value::Number(a * b),
        Divide => Value::Number(a / b),
        Modulo => Value::Number(a % b),
        Power => Value::Number(a.powf(b)),
        Equal | DotEqual => Value::Bool(a == b),
        NotEqual | DotNotEqual => Value::Bool(a != b),
        Less | DotLess => Value::Bool(a < b),
        LessEq | DotLessEq => Value::Bool(a <= b),
        Greater | DotGreater => Value::Bool(a > b),
        GreaterEq | DotGreaterEq => Value::Bool(a >= b),
        Coalesce => Value::Number(a),
        _ => Value::Null,
    }
}
pub fn ref_bool(op: BinaryOp, a: bool, b: bool) -> Value {
    use BinaryOp::*;
    match op {
        And | NaturalAnd => Value::Bool(a && b),
        Or | NaturalOr => Value::Bool(a || b),
        Equal | DotEqual => Value::Bool(a == b),
        NotEqual | DotNotEqual => Value::Bool(a != b),
        Less | DotLess => Value::Bool(!a & b),
        LessEq | DotLessEq => Value::Bool(a <= b),
        Greater | DotGreater => Value::Bool(a & !b),
        GreaterEq | DotGreaterEq => Value::Bool(a >= b),
        Coalesce => Value::Bool(a),
        _ => Value::Null,
    }
}
fn is_ordering(op: BinaryOp) -> bool {
    use BinaryOp::*;
    matches!(op, Less | LessEq | Greater | GreaterEq | DotLess | DotLessEq | DotGreater | DotGreaterEq)
}

// ------------------------------------------------------------------ scalar o scalar (numbers)
macro_rules! c11_num_num {
    ($name:ident, $op:expr, $gen:expr) => {
        kproof!(noerr_nocall, 3, fn $name() {
            let a: f64 = $gen;
            let b: f64 = $gen;
            if is_ordering($op) {
                kani::assume(!a.is_nan() && !b.is_nan());
            }
            let e = arena::binop($op, num(a), num(b));
            let heap = arena::heap();
            let r = evaluate_ast(&e, heap.clone(), arena::env(), 0, src());
            match r {
                Ok(v) => assert!(same_value(v, ref_num($op, a, b))),
                Err(_) => panic!("scalar operator failed on two numbers"),
            }
            kani::cover!(true, "reach-end");
            std::mem::forget(e);
            std::mem::forget(heap);
        });
    };
}
c11_num_num!(c11_q_ss_add, BinaryOp::Add, any_f64_m(10));
c11_num_num!(c11_q_ss_sub, BinaryOp::Subtract, any_f64_m(10));
c11_num_num!(c11_t_ss_mul, BinaryOp::Multiply, any_f64_m(6));
c11_num_num!(c11_t_ss_div, BinaryOp::Divide, any_f64_m(4));
c11_num_num!(c11_t_ss_add_full, BinaryOp::Add, kani::any());
c11_num_num!(c11_t_ss_sub_full, BinaryOp::Subtract, kani::any());
c11_num_num!(c11_t_ss_mul_m12, BinaryOp::Multiply, any_f64_m(12));
// (8 mantissa bits: two 64-bit dividers to be proved equal - timed out at 2400 s under load; 6 finish)
c11_num_num!(c11_t_ss_div_m6, BinaryOp::Divide, any_f64_m(6));
c11_num_num!(c11_q_ss_eq, BinaryOp::Equal, kani::any());
c11_num_num!(c11_t_ss_ne, BinaryOp::NotEqual, kani::any());
c11_num_num!(c11_q_ss_lt, BinaryOp::Less, kani::any());
c11_num_num!(c11_t_ss_le, BinaryOp::LessEq, kani::any());
c11_num_num!(c11_t_ss_gt, BinaryOp::Greater, kani::any());
c11_num_num!(c11_t_ss_ge, BinaryOp::GreaterEq, kani::any());
c11_num_num!(c11_t_ss_coalesce_num, BinaryOp::Coalesce, kani::any());
c11_num_num!(c11_t_ss_doteq, BinaryOp::DotEqual, kani::any());
c11_num_num!(c11_t_ss_dotne, BinaryOp::DotNotEqual, kani::any());
c11_num_num!(c11_t_ss_dotlt, BinaryOp::DotLess, kani::any());
c11_num_num!(c11_t_ss_dotle, BinaryOp::DotLessEq, kani::any());
c11_num_num!(c11_t_ss_dotgt, BinaryOp::DotGreater, kani::any());
c11_num_num!(c11_t_ss_dotge, BinaryOp::DotGreaterEq, kani::any());

// ------------------------------------------------------------------ scalar o scalar (booleans)
macro_rules! c11_bool_bool {
    ($name:ident, $op:expr) => {
        kproof!(noerr_nocall, 3, fn $name() {
            let a: bool = kani::any();
            let b: bool = kani::any();
            let e = arena::binop($op, Expr::Bool(a), Expr::Bool(b));
            let heap = arena::heap();
            let r = evaluate_ast(&e, heap.clone(), arena::env(), 0, src());
            match r {
                Ok(v) => assert!(same_value(v, ref_bool($op, a, b))),
                Err(_) => panic!("scalar operator failed on two booleans"),
            }
            kani::cover!(true, "reach-end");
            std::mem::forget(e);
            std::mem::forget(heap);
        });
    };
}
c11_bool_bool!(c11_q_bb_and, BinaryOp::And);
c11_bool_bool!(c11_t_bb_natural_and, BinaryOp::NaturalAnd);
c11_bool_bool!(c11_t_bb_or, BinaryOp::Or);
c11_bool_bool!(c11_q_bb_natural_or, BinaryOp::NaturalOr);
c11_bool_bool!(c11_t_bb_eq, BinaryOp::Equal);
c11_bool_bool!(c11_t_bb_lt, BinaryOp::Less);
c11_bool_bool!(c11_t_bb_coalesce, BinaryOp::Coalesce);

// ---------------------------------------------------------------- ?? with a null on the left
kproof!(noerr_nocall, 3, fn c11_q_ss_coalesce_null_left() {
    let b: f64 = kani::any();
    let e = arena::binop(BinaryOp::Coalesce, Expr::Null, num(b));
    let heap = arena::heap();
    match evaluate_ast(&e, heap.clone(), arena::env(), 0, src()) {
        Ok(v) => assert!(same_value(v, Value::Number(b))),
        Err(_) => panic!("?? failed"),
    }
    let e2 = arena::binop(BinaryOp::Coalesce, num(b), Expr::Null);
    match evaluate_ast(&e2, heap.clone(), arena::env(), 0, src()) {
        Ok(v) => assert!(same_value(v, Value::Number(b))),
        Err(_) => panic!("?? failed"),
    }
    let e3 = arena::binop(BinaryOp::Coalesce, Expr::Null, Expr::Null);
    match evaluate_ast(&e3, heap.clone(), arena::env(), 0, src()) {
        Ok(v) => assert!(same_value(v, Value::Null)),
        Err(_) => panic!("?? failed"),
    }
    kani::cover!(true, "reach-end");
    std::mem::forget((e, e2, e3));
    std::mem::forget(heap);
});

// ------------------------------------------------------- type errors: fails exactly when ...
// `cut` harness: every path that builds an anyhow type error is dropped; any path that survives
// must have returned Err (a RuntimeError built directly) - an Ok result is the violation.
macro_rules! c11_type_error {
    ($name:ident, $op:expr, $l:expr, $r:expr) => {
        kproof!(cut_nocall, 3, fn $name() {
            let a: f64 = kani::any();
            let b: bool = kani::any();
            kani::cover!(true, "reach-call");
            let l: fn(f64, bool) -> Expr = $l;
            let r: fn(f64, bool) -> Expr = $r;
            let e = arena::binop($op, l(a, b), r(a, b));
            let heap = arena::heap();
            let res = evaluate_ast(&e, heap.clone(), arena::env(), 0, src());
            assert!(res.is_err());
            std::mem::forget(e);
            std::mem::forget(heap);
        });
    };
}
c11_type_error!(c11_q_err_add_num_bool, BinaryOp::Add, |a, _| num(a), |_, b| Expr::Bool(b));
c11_type_error!(c11_t_err_sub_bool_num, BinaryOp::Subtract, |_, b| Expr::Bool(b), |a, _| num(a));
c11_type_error!(c11_t_err_mul_null_num, BinaryOp::Multiply, |_, _| Expr::Null, |a, _| num(a));
c11_type_error!(c11_t_err_div_num_null, BinaryOp::Divide, |a, _| num(a), |_, _| Expr::Null);
c11_type_error!(c11_t_err_and_num_bool, BinaryOp::And, |a, _| num(a), |_, b| Expr::Bool(b));
// the right operand is type-checked even when the left one decides the result (defect fixed in
// e9f5143: `true or null` was `true`, `false and 3` was `false`); quick tier so that a regression
// is seen on every change
c11_type_error!(c11_q_err_or_bool_null, BinaryOp::NaturalOr, |_, b| Expr::Bool(b), |_, _| Expr::Null);
c11_type_error!(c11_q_err_and_bool_num, BinaryOp::And, |_, b| Expr::Bool(b), |a, _| num(a));
c11_type_error!(c11_q_err_lt_num_bool, BinaryOp::Less, |a, _| num(a), |_, b| Expr::Bool(b));
c11_type_error!(c11_t_err_ge_null_null, BinaryOp::GreaterEq, |_, _| Expr::Null, |_, _| Expr::Null);
c11_type_error!(c11_t_err_dotlt_bool_num, BinaryOp::DotLess, |_, b| Expr::Bool(b), |a, _| num(a));

// ------------------------------------------------------------------ broadcasting, numbers
#[derive(Clone, Copy)]
pub enum Shape {
    ListScalar,
    ScalarList,
    ListList,
}

/// evaluate `L op s`, `s op L` or `L op M` with L=[a0,a1], M=[b0,b1], s=b0 and compare with the
/// per-element reference in list order
macro_rules! c11_bcast_num {
    ($name:ident, $op:expr, $shape:expr, $gen:expr) => {
        kproof!(noerr_nocall, 4, fn $name() {
            let a0: f64 = $gen;
            let a1: f64 = $gen;
            let b0: f64 = $gen;
            let b1: f64 = $gen;
            if is_ordering($op) {
                kani::assume(!a0.is_nan() && !a1.is_nan() && !b0.is_nan() && !b1.is_nan());
            }
            let (e, w0, w1) = match $shape {
                Shape::ListScalar => (
                    arena::binop($op, arena::list2(num(a0), num(a1)), num(b0)),
                    ref_num($op, a0, b0),
                    ref_num($op, a1, b0),
                ),
                Shape::ScalarList => (
                    arena::binop($op, num(b0), arena::list2(num(a0), num(a1))),
                    ref_num($op, b0, a0),
                    ref_num($op, b0, a1),
                ),
                Shape::ListList => (
                    arena::binop($op, arena::list2(num(a0), num(a1)), arena::list2(num(b0), num(b1))),
                    ref_num($op, a0, b0),
                    ref_num($op, a1, b1),
                ),
            };
            let heap = arena::heap();
            let r = evaluate_ast(&e, heap.clone(), arena::env(), 0, src());
            match r {
                Ok(v) => match read_list(v, &heap) {
                    Some((n, el)) => {
                        assert!(n == 2);
                        assert!(same_value(el[0], w0));
                        assert!(same_value(el[1], w1));
                    }
                    None => panic!("broadcast result is not a list"),
                },
                Err(_) => panic!("broadcast failed on numbers"),
            }
            kani::cover!(true, "reach-end");
            std::mem::forget(e);
            std::mem::forget(heap);
        });
    };
}
c11_bcast_num!(c11_q_ls_sub, BinaryOp::Subtract, Shape::ListScalar, any_f64_m(6));
c11_bcast_num!(c11_q_sl_sub, BinaryOp::Subtract, Shape::ScalarList, any_f64_m(6));
c11_bcast_num!(c11_q_ll_sub, BinaryOp::Subtract, Shape::ListList, any_f64_m(6));
c11_bcast_num!(c11_t_ls_add, BinaryOp::Add, Shape::ListScalar, any_f64_m(6));
c11_bcast_num!(c11_t_sl_add, BinaryOp::Add, Shape::ScalarList, any_f64_m(6));
c11_bcast_num!(c11_t_ll_add, BinaryOp::Add, Shape::ListList, any_f64_m(6));
c11_bcast_num!(c11_t_ls_mul, BinaryOp::Multiply, Shape::ListScalar, any_f64_m(4));
c11_bcast_num!(c11_t_sl_mul, BinaryOp::Multiply, Shape::ScalarList, any_f64_m(4));
c11_bcast_num!(c11_t_ll_mul, BinaryOp::Multiply, Shape::ListList, any_f64_m(4));
c11_bcast_num!(c11_t_ls_div, BinaryOp::Divide, Shape::ListScalar, any_f64_m(3));
c11_bcast_num!(c11_q_sl_div, BinaryOp::Divide, Shape::ScalarList, any_f64_m(3));
c11_bcast_num!(c11_t_ll_div, BinaryOp::Divide, Shape::ListList, any_f64_m(3));
c11_bcast_num!(c11_t_ls_sub_full, BinaryOp::Subtract, Shape::ListScalar, kani::any());
c11_bcast_num!(c11_t_sl_sub_full, BinaryOp::Subtract, Shape::ScalarList, kani::any());
c11_bcast_num!(c11_t_ll_sub_full, BinaryOp::Subtract, Shape::ListList, kani::any());
c11_bcast_num!(c11_t_ls_lt, BinaryOp::Less, Shape::ListScalar, kani::any());
c11_bcast_num!(c11_t_sl_lt, BinaryOp::Less, Shape::ScalarList, kani::any());
c11_bcast_num!(c11_q_ll_lt, BinaryOp::Less, Shape::ListList, kani::any());
c11_bcast_num!(c11_t_ls_le, BinaryOp::LessEq, Shape::ListScalar, kani::any());
c11_bcast_num!(c11_t_sl_le, BinaryOp::LessEq, Shape::ScalarList, kani::any());
c11_bcast_num!(c11_t_ll_le, BinaryOp::LessEq, Shape::ListList, kani::any());
c11_bcast_num!(c11_t_ls_gt, BinaryOp::Greater, Shape::ListScalar, kani::any());
c11_bcast_num!(c11_q_sl_gt, BinaryOp::Greater, Shape::ScalarList, kani::any());
c11_bcast_num!(c11_t_ll_gt, BinaryOp::Greater, Shape::ListList, kani::any());
c11_bcast_num!(c11_t_ls_ge, BinaryOp::GreaterEq, Shape::ListScalar, kani::any());
c11_bcast_num!(c11_t_sl_ge, BinaryOp::GreaterEq, Shape::ScalarList, kani::any());
c11_bcast_num!(c11_t_ll_ge, BinaryOp::GreaterEq, Shape::ListList, kani::any());
c11_bcast_num!(c11_q_ls_eq, BinaryOp::Equal, Shape::ListScalar, kani::any());
c11_bcast_num!(c11_t_sl_eq, BinaryOp::Equal, Shape::ScalarList, kani::any());
c11_bcast_num!(c11_t_ll_eq, BinaryOp::Equal, Shape::ListList, kani::any());
c11_bcast_num!(c11_t_ls_ne, BinaryOp::NotEqual, Shape::ListScalar, kani::any());
c11_bcast_num!(c11_t_sl_ne, BinaryOp::NotEqual, Shape::ScalarList, kani::any());
c11_bcast_num!(c11_t_ll_ne, BinaryOp::NotEqual, Shape::ListList, kani::any());

// ------------------------------------------------------------------ broadcasting, booleans
macro_rules! c11_bcast_bool {
    ($name:ident, $op:expr, $shape:expr) => {
        kproof!(noerr_nocall, 4, fn $name() {
            let a0: bool = kani::any();
            let a1: bool = kani::any();
            let b0: bool = kani::any();
            let b1: bool = kani::any();
            let (e, w0, w1) = match $shape {
                Shape::ListScalar => (
                    arena::binop($op, arena::list2(Expr::Bool(a0), Expr::Bool(a1)), Expr::Bool(b0)),
                    ref_bool($op, a0, b0),
                    ref_bool($op, a1, b0),
                ),
                Shape::ScalarList => (
                    arena::binop($op, Expr::Bool(b0), arena::list2(Expr::Bool(a0), Expr::Bool(a1))),
                    ref_bool($op, b0, a0),
                    ref_bool($op, b0, a1),
                ),
                Shape::ListList => (
                    arena::binop($op, arena::list2(Expr::Bool(a0), Expr::Bool(a1)), arena::list2(Expr::Bool(b0), Expr::Bool(b1))),
                    ref_bool($op, a0, b0),
                    ref_bool($op, a1, b1),
                ),
            };
            let heap = arena::heap();
            let r = evaluate_ast(&e, heap.clone(), arena::env(), 0, src());
            match r {
                Ok(v) => match read_list(v, &heap) {
                    Some((n, el)) => {
                        assert!(n == 2);
                        assert!(same_value(el[0], w0));
                        assert!(same_value(el[1], w1));
                    }
                    None => panic!("broadcast result is not a list"),
                },
                Err(_) => panic!("broadcast failed on booleans"),
            }
            kani::cover!(true, "reach-end");
            std::mem::forget(e);
            std::mem::forget(heap);
        });
    };
}
c11_bcast_bool!(c11_q_ls_and, BinaryOp::And, Shape::ListScalar);
c11_bcast_bool!(c11_t_sl_and, BinaryOp::And, Shape::ScalarList);
c11_bcast_bool!(c11_t_ll_and, BinaryOp::And, Shape::ListList);
c11_bcast_bool!(c11_t_ls_natural_and, BinaryOp::NaturalAnd, Shape::ListScalar);
c11_bcast_bool!(c11_t_sl_natural_or, BinaryOp::NaturalOr, Shape::ScalarList);
c11_bcast_bool!(c11_t_ll_or, BinaryOp::Or, Shape::ListList);
c11_bcast_bool!(c11_t_ls_or, BinaryOp::Or, Shape::ListScalar);
c11_bcast_bool!(c11_t_sl_lt_bool, BinaryOp::Less, Shape::ScalarList);

// ------------------------------------------------------------------ ?? broadcasts per element
kproof!(noerr_nocall, 4, fn c11_q_ls_coalesce() {
    let a: f64 = kani::any();
    let s: f64 = kani::any();
    // [null, a] ?? s  ==  [s, a]
    let e = arena::binop(BinaryOp::Coalesce, arena::list2(Expr::Null, num(a)), num(s));
    let heap = arena::heap();
    match evaluate_ast(&e, heap.clone(), arena::env(), 0, src()) {
        Ok(v) => match read_list(v, &heap) {
            Some((n, el)) => {
                assert!(n == 2);
                assert!(same_value(el[0], Value::Number(s)));
                assert!(same_value(el[1], Value::Number(a)));
            }
            None => panic!("not a list"),
        },
        Err(_) => panic!("?? broadcast failed"),
    }
    kani::cover!(true, "reach-end");
    std::mem::forget(e);
    std::mem::forget(heap);
});
kproof!(noerr_nocall, 4, fn c11_q_sl_coalesce() {
    let a: f64 = kani::any();
    let s: f64 = kani::any();
    // null ?? [a, null] == [a, null] ;  s ?? [a, null] == [s, s]
    let e = arena::binop(BinaryOp::Coalesce, Expr::Null, arena::list2(num(a), Expr::Null));
    let heap = arena::heap();
    match evaluate_ast(&e, heap.clone(), arena::env(), 0, src()) {
        Ok(v) => match read_list(v, &heap) {
            Some((n, el)) => {
                assert!(n == 2);
                assert!(same_value(el[0], Value::Number(a)));
                assert!(same_value(el[1], Value::Null));
            }
            None => panic!("not a list"),
        },
        Err(_) => panic!("?? broadcast failed"),
    }
    let e2 = arena::binop(BinaryOp::Coalesce, num(s), arena::list2(num(a), Expr::Null));
    match evaluate_ast(&e2, heap.clone(), arena::env(), 0, src()) {
        Ok(v) => match read_list(v, &heap) {
            Some((n, el)) => {
                assert!(n == 2);
                assert!(same_value(el[0], Value::Number(s)));
                assert!(same_value(el[1], Value::Number(s)));
            }
            None => panic!("not a list"),
        },
        Err(_) => panic!("?? broadcast failed"),
    }
    kani::cover!(true, "reach-end");
    std::mem::forget((e, e2));
    std::mem::forget(heap);
});

// -------------------------------------------- fails exactly when lengths differ / element fails
macro_rules! c11_len_mismatch {
    ($name:ident, $op:expr) => {
        kproof!(cut_nocall, 4, fn $name() {
            let a: f64 = kani::any();
            let b: f64 = kani::any();
            kani::cover!(true, "reach-call");
            let heap = arena::heap();
            let e = arena::binop($op, arena::list2(num(a), num(b)), arena::list1(num(b)));
            assert!(evaluate_ast(&e, heap.clone(), arena::env(), 0, src()).is_err());
            let e2 = arena::binop($op, arena::list0(), arena::list1(num(b)));
            assert!(evaluate_ast(&e2, heap.clone(), arena::env(), 0, src()).is_err());
            std::mem::forget((e, e2));
            std::mem::forget(heap);
        });
    };
}
c11_len_mismatch!(c11_q_ll_len_mismatch_add, BinaryOp::Add);
c11_len_mismatch!(c11_t_ll_len_mismatch_lt, BinaryOp::Less);
c11_len_mismatch!(c11_t_ll_len_mismatch_eq, BinaryOp::Equal);
c11_len_mismatch!(c11_t_ll_len_mismatch_and, BinaryOp::And);
c11_len_mismatch!(c11_t_ll_len_mismatch_coalesce, BinaryOp::Coalesce);

macro_rules! c11_elem_error {
    ($name:ident, $op:expr, $shape:expr) => {
        kproof!(cut_nocall, 4, fn $name() {
            let a: f64 = kani::any();
            let s: f64 = kani::any();
            let t: bool = kani::any();
            kani::cover!(true, "reach-call");
            let heap = arena::heap();
            // second element has the wrong type for an arithmetic / ordering operator
            let e = match $shape {
                Shape::ListScalar => arena::binop($op, arena::list2(num(a), Expr::Bool(t)), num(s)),
                Shape::ScalarList => arena::binop($op, num(s), arena::list2(num(a), Expr::Bool(t))),
                Shape::ListList => arena::binop($op, arena::list2(num(a), Expr::Bool(t)), arena::list2(num(s), num(s))),
            };
            assert!(evaluate_ast(&e, heap.clone(), arena::env(), 0, src()).is_err());
            std::mem::forget(e);
            std::mem::forget(heap);
        });
    };
}
c11_elem_error!(c11_q_ls_elem_error_sub, BinaryOp::Subtract, Shape::ListScalar);
c11_elem_error!(c11_t_sl_elem_error_add, BinaryOp::Add, Shape::ScalarList);
c11_elem_error!(c11_t_ll_elem_error_mul, BinaryOp::Multiply, Shape::ListList);
c11_elem_error!(c11_t_ls_elem_error_lt, BinaryOp::Less, Shape::ListScalar);
c11_elem_error!(c11_t_sl_elem_error_ge, BinaryOp::GreaterEq, Shape::ScalarList);

// ------------------------------------------------------------------ empty lists broadcast to []
kproof!(noerr_nocall, 4, fn c11_q_empty_list_broadcast() {
    let s: f64 = kani::any();
    let heap = arena::heap();
    let e = arena::binop(BinaryOp::Subtract, arena::list0(), num(s));
    match evaluate_ast(&e, heap.clone(), arena::env(), 0, src()) {
        Ok(v) => assert!(matches!(read_list(v, &heap), Some((0, _)))),
        Err(_) => panic!("[] - s failed"),
    }
    let e2 = arena::binop(BinaryOp::Less, arena::list0(), arena::list0());
    match evaluate_ast(&e2, heap.clone(), arena::env(), 0, src()) {
        Ok(v) => assert!(matches!(read_list(v, &heap), Some((0, _)))),
        Err(_) => panic!("[] < [] failed"),
    }
    kani::cover!(true, "reach-end");
    std::mem::forget((e, e2));
    std::mem::forget(heap);
});

// ------------------------------------------------------------ dot comparisons never broadcast
macro_rules! c11_dot_no_broadcast {
    ($name:ident, $op:expr) => {
        kproof!(cut_nocall, 4, fn $name() {
            let a: f64 = kani::any();
            let b: f64 = kani::any();
            let c: f64 = kani::any();
            let d: f64 = kani::any();
            kani::assume(!a.is_nan() && !b.is_nan() && !c.is_nan() && !d.is_nan());
            kani::cover!(true, "reach-call");
            let heap = arena::heap();
            // list vs list: a single boolean (never a list)
            let e = arena::binop($op, arena::list2(num(a), num(b)), arena::list2(num(c), num(d)));
            match evaluate_ast(&e, heap.clone(), arena::env(), 0, src()) {
                Ok(v) => assert!(matches!(v, Value::Bool(_))),
                Err(_) => panic!("dot comparison of two number lists failed"),
            }
            // list vs scalar: never a list (false for .==, true for .!=, error for the orderings)
            let e2 = arena::binop($op, arena::list2(num(a), num(b)), num(c));
            match evaluate_ast(&e2, heap.clone(), arena::env(), 0, src()) {
                Ok(v) => assert!(matches!(v, Value::Bool(_))),
                Err(_) => {}
            }
            std::mem::forget((e, e2));
            std::mem::forget(heap);
        });
    };
}
c11_dot_no_broadcast!(c11_q_dot_eq_no_broadcast, BinaryOp::DotEqual);
c11_dot_no_broadcast!(c11_t_dot_lt_no_broadcast, BinaryOp::DotLess);
c11_dot_no_broadcast!(c11_t_dot_ne_no_broadcast, BinaryOp::DotNotEqual);
c11_dot_no_broadcast!(c11_t_dot_le_no_broadcast, BinaryOp::DotLessEq);
c11_dot_no_broadcast!(c11_t_dot_gt_no_broadcast, BinaryOp::DotGreater);
c11_dot_no_broadcast!(c11_t_dot_ge_no_broadcast, BinaryOp::DotGreaterEq);

// ------------------------------------------------------------------ % : operand routing only
// `%` is float remainder; with operands restricted to 3 mantissa bits the two remainder circuits
// are small.  What is decided is which operands reach the operator, in which order, per element.
c11_bcast_num!(c11_t_ls_mod, BinaryOp::Modulo, Shape::ListScalar, any_f64_m(3));
c11_bcast_num!(c11_t_sl_mod, BinaryOp::Modulo, Shape::ScalarList, any_f64_m(3));
c11_bcast_num!(c11_t_ll_mod, BinaryOp::Modulo, Shape::ListList, any_f64_m(3));
c11_num_num!(c11_t_ss_mod_m3, BinaryOp::Modulo, any_f64_m(3));
// `^` is libm pow.  CBMC's model of `pow` is not a function of its arguments for symbolic execution
// (two calls with equal operands may return different values: the comparison harnesses for `^`
// produced counterexamples - 32 ^ -1.9e-185 - that do not reproduce natively), so the *value* of
// `^` is outside the claim; what is decided is totality: two numbers always give a number.
kproof!(noerr_nocall, 3, fn c11_t_ss_pow_total() {
    let (a, b): (f64, f64) = (kani::any(), kani::any());
    let e = arena::binop(BinaryOp::Power, num(a), num(b));
    let heap = arena::heap();
    match evaluate_ast(&e, heap.clone(), arena::env(), 0, src()) {
        Ok(v) => assert!(matches!(v, Value::Number(_))),
        Err(_) => panic!("`^` failed on two numbers"),
    }
    kani::cover!(true, "reach-end");
    std::mem::forget(e);
    std::mem::forget(heap);
});
