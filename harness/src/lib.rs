//! Kani proof harnesses over the real blots-core (path dependency on /repo/blots-core, built
//! from the working tree on every run).  One module per property; harness names are
//! `<cid>_<q|t>_<what>`: `q` harnesses form the quick tier, the thorough tier runs all.
#![allow(unused, clippy::all, static_mut_refs)]
#![recursion_limit = "1024"]
#![cfg_attr(kani, feature(allocator_api))]
pub mod util;
mod probes;
mod c00;
mod c01;
mod c02;
mod c04;
mod c07;
mod c10;
mod c11;
mod c12;
mod c13;
mod c14;
mod c15;
mod c18;
mod c06;
