#!/bin/bash
# usage: seed_isolated.sh <seeded-dir-name> <slot> <check args...>
# tries a seeded change in an isolated worktree + cache (no change to /repo), e.g.
#   engine/seed_isolated.sh C11-len-check-one-sided 1 C11 --tier thorough --only c11_q_ll_len_mismatch_add
name=$1; slot=$2; shift 2
wt=/var/tmp/blots-seed-wt-$slot
git -C /repo worktree remove --force $wt >/dev/null 2>&1
git -C /repo worktree add -q --detach $wt HEAD || exit 2
( cd $wt && git apply /verif/seeded/$name/patch.diff ) || { echo "patch does not apply"; git -C /repo worktree remove --force $wt; exit 2; }
cd /verif
VERIF_REPO=$wt VERIF_CACHE=/verif/.cache-seed$slot VERIF_EVIDENCE_DIR=/verif/.cache-seed$slot/evidence ./check "$@" > /verif/.cache/logs/seed_$name.out 2>&1
rc=$?
git -C /repo worktree remove --force $wt >/dev/null 2>&1
echo "seed $name: exit=$rc $(grep -a -c VIOLATION /verif/.cache/logs/seed_$name.out) violation line(s); $(tail -1 /verif/.cache/logs/seed_$name.out)"
exit $rc
