#!/usr/bin/env python3
"""Run the Kani/CBMC harness family of one property against /repo's current working tree.

  run_kani.py <CID> [--tier quick|thorough]

* builds the harness crate /verif/harness (path dependency on /repo/blots-core, feature
  verif-hooks) with Kani, one CBMC process per harness, in parallel;
* parses every harness verdict; a harness that times out, runs out of memory, fails an
  unwinding assertion or misses its reachability witness makes the run INCONCLUSIVE (exit 2);
* a failed check is first matched against /verif/known_findings.json, otherwise the
  counterexample is extracted (concrete playback), replayed natively against the real crate
  and, if it reproduces, reported as  VIOLATION property=<id> replay=<path>  (exit 1);
* writes /verif/evidence/<CID>.json.
"""
import argparse
import json
import os
import re
import shutil
import subprocess
import sys
import time

VERIF = os.path.dirname(os.path.dirname(os.path.abspath(__file__)))
HARNESS = os.path.join(VERIF, "harness")
CACHE = os.environ.get("VERIF_CACHE", os.path.join(VERIF, ".cache"))
REPO = os.environ.get("VERIF_REPO", "/repo")

sys.path.insert(0, os.path.dirname(os.path.abspath(__file__)))
from props import PROPS  # noqa: E402

COMMON_ASSUMPTIONS = [
    "bounded model checking (CBMC 6.11 via Kani 0.68) of the compiled blots-core from /repo's working tree; unwinding assertions on; every bound is the harness's #[kani::unwind] and concrete shape",
    "blots-core built with feature verif-hooks: every enum gets a word-sized direct tag (cfg_attr repr(u64), layout only; the crate contains no unsafe code) and Heap::verif_from_values builds a heap from given cells",
    "harness inputs that contain pointers (AST nodes, heap cells, the Rc<RefCell<Heap>>) live in typed statics (harness/src/util.rs arena) instead of malloc'ed byte arrays",
    "stubs: std::hash::RandomState::new -> fixed keys (no claim about hash-seed independence); std::backtrace::Backtrace::capture -> disabled; alloc::fmt::format -> empty String except where text is the subject (error messages unconstrained, error status kept)",
    "stubs: anyhow::Error::msg / anyhow::__private::format_err end the path: 'noerr' harnesses report reaching them as a failed check, 'cut' harnesses drop the path (what follows the construction of an error value is `?` propagation; callers that swallow errors with .ok()/unwrap_or are outside)",
    "CBMC's IEEE-754 model stands for the hardware; Kani run with --no-overflow-checks (drops CBMC's NaN-result check: NaN/inf results are legitimate values of the language); Rust's own overflow / bounds / unwrap panics stay checked",
]


def sh(cmd, **kw):
    return subprocess.run(cmd, shell=isinstance(cmd, str), stdout=subprocess.PIPE, stderr=subprocess.STDOUT, text=True, errors="replace", **kw)


def harness_names(cid):
    """harness names are tokens of the form cNN_[qt]_xxx in the property's module"""
    mod = PROPS[cid]["module"]
    src = open(os.path.join(HARNESS, "src", mod + ".rs")).read()
    names = sorted(set(re.findall(r"\b(%s_[qt]_\w+)\b" % cid.lower(), src)))
    if PROPS[cid].get("selfcheck", True):
        # infrastructure self-checks (layout assumptions of the arena) run with every family
        src0 = open(os.path.join(HARNESS, "src", "c00.rs")).read()
        names += sorted(set(re.findall(r"\b(c00_q_\w+)\b", src0)))
    return names


HARNESS_RUN = HARNESS


def prepare_crate():
    """the harness crate depends on /repo/blots-core by path; when VERIF_REPO points elsewhere (a scratch
    worktree used to try a seeded change without touching /repo) a copy of the crate with the path
    rewritten is used instead"""
    global HARNESS_RUN
    if os.path.realpath(REPO) != "/repo":
        HARNESS_RUN = os.path.join(CACHE, "harness-copy")
        shutil.rmtree(HARNESS_RUN, ignore_errors=True)
        os.makedirs(HARNESS_RUN)
        shutil.copytree(os.path.join(HARNESS, "src"), os.path.join(HARNESS_RUN, "src"))
        toml = open(os.path.join(HARNESS, "Cargo.toml")).read().replace('path = "/repo/blots-core"', 'path = "%s/blots-core"' % REPO)
        open(os.path.join(HARNESS_RUN, "Cargo.toml"), "w").write(toml)
    shutil.copyfile(os.path.join(REPO, "Cargo.lock"), os.path.join(HARNESS_RUN, "Cargo.lock"))


def kani_env():
    env = dict(os.environ)
    env["CARGO_NET_OFFLINE"] = "true"
    env.pop("RUSTFLAGS", None)
    return env


def run_family(cid, tier, jobs, timeout_s, target, only=None):
    out_dir = os.path.join(target, "result_output_dir")
    shutil.rmtree(out_dir, ignore_errors=True)
    pats = ["%s_q_" % cid.lower()] if tier == "quick" else ["%s_q_" % cid.lower(), "%s_t_" % cid.lower()]
    if only:
        pats = [only]
    hsel = []
    for pt in pats + ["c00_q_"]:
        hsel += ["--harness", pt]
    cmd = [
        "cargo", "kani", "--target-dir", target, "-Z", "unstable-options", "-Z", "stubbing",
    ] + hsel + ["--harness-timeout", "%ds" % timeout_s, "-j", str(jobs),
        "--output-format", "terse", "--output-into-files", "--no-overflow-checks",
        "--cbmc-args", "--max-field-sensitivity-array-size", "4096",
    ]
    t0 = time.time()
    # phase 1: compile + codegen only, without the address-space limit (kani-compiler maps more
    # than 16 GB of address space on the larger harness families and aborts with SIGABRT under it)
    i = cmd.index("--cbmc-args")
    pre = sh(" ".join(cmd[:i] + ["--only-codegen"] + cmd[i:]), cwd=HARNESS_RUN, env=kani_env())
    if pre.returncode != 0:
        return pre.stdout, time.time() - t0, out_dir, " ".join(cmd)
    # phase 2 (compilation cached): address-space limit per process (CBMC included): a harness
    # that needs more is reported as out of memory (inconclusive) instead of endangering the
    # other checks
    mem_kb = int(os.environ.get("VERIF_CBMC_MEM_KB", "16000000"))
    p = sh("ulimit -v %d; exec %s" % (mem_kb, " ".join(cmd)), cwd=HARNESS_RUN, env=kani_env())
    return p.stdout, time.time() - t0, out_dir, " ".join(cmd)


# (rustfmt-style wrapping can spread an assertion text over several lines)
RE_FAILED = re.compile(r"Failed Checks: ((?:.|\n)*?)\n\s*File: \"([^\"]*)\", line (\d+), in (\S+)")


def parse_result(path):
    txt = open(path, errors="replace").read()
    r = {"status": "unknown", "failed_checks": [], "checks": 0, "failed": 0, "unreachable": 0,
         "covers_sat": 0, "covers_total": 0, "time_s": None}
    m = re.search(r"\*\* (\d+) of (\d+) failed(?: \((\d+) unreachable\))?", txt)
    if m:
        r["failed"], r["checks"] = int(m.group(1)), int(m.group(2))
        r["unreachable"] = int(m.group(3) or 0)
    m = re.search(r"\*\* (\d+) of (\d+) cover properties satisfied", txt)
    if m:
        r["covers_sat"], r["covers_total"] = int(m.group(1)), int(m.group(2))
    m = re.search(r"Verification Time: ([0-9.]+)s", txt)
    if m:
        r["time_s"] = float(m.group(1))
    for d, f, l, fn in RE_FAILED.findall(txt):
        r["failed_checks"].append({"description": " ".join(d.split()), "file": f, "line": int(l), "function": fn})
    if "VERIFICATION:- SUCCESSFUL" in txt:
        r["status"] = "success"
    elif "CBMC timed out" in txt:
        r["status"] = "timeout"
    elif "VERIFICATION:- FAILED" in txt:
        r["status"] = "failed" if r["failed_checks"] else "error"
        if "out of memory" in txt.lower() or "std::bad_alloc" in txt:
            r["status"] = "oom"
    return r


def is_bound_failure(fc):
    d = fc["description"]
    return d.startswith("unwinding assertion") or "recursion unwinding assertion" in d or d.startswith("arena capacity exceeded")


def load_known():
    p = os.path.join(VERIF, "known_findings.json")
    if not os.path.exists(p):
        return {"findings": [], "fixed": []}
    return json.load(open(p))


def match_known(known, cid, hname, fc):
    for k in known.get("findings", []):
        if k.get("property") != cid:
            continue
        if not re.search(k["harness"], hname):
            continue
        if re.search(k["check"], fc["description"]):
            return k
    return None


# ------------------------------------------------------------------------------------------
# counterexample extraction + native replay
def parse_playback(text):
    """line-based parser of `--concrete-playback=print` output"""
    tests, cur = [], None
    for line in text.split("\n"):
        m = re.match(r"\s*/// Check for `(\w+)`: \"(.*)\"\s*$", line)
        if m:
            cur = {"kind": m.group(1), "description": m.group(2), "values": [], "open": False}
            tests.append(cur)
            continue
        if cur is None:
            continue
        if "let concrete_vals" in line:
            cur["open"] = True
            continue
        if cur["open"]:
            m = re.match(r"\s*vec!\[(.*)\],?\s*$", line)
            if m:
                cur["values"].append([int(x) for x in m.group(1).split(",") if x.strip() != ""])
            elif re.match(r"\s*\];", line):
                cur["open"] = False
                cur = None
    for t in tests:
        t.pop("open", None)
    return tests


def extract_counterexamples(cid, hname, target, timeout_s):
    """re-run one harness with concrete playback (print) and parse the generated tests"""
    cmd = [
        "cargo", "kani", "--target-dir", target + "-rp", "-Z", "unstable-options", "-Z", "stubbing",
        "-Z", "concrete-playback", "--concrete-playback=print", "--harness", hname, "--exact" if False else "",
        "--harness-timeout", "%ds" % timeout_s, "--no-overflow-checks", "--output-format", "terse",
        "--cbmc-args", "--max-field-sensitivity-array-size", "4096",
    ]
    cmd = [c for c in cmd if c]
    p = sh(" ".join(cmd), cwd=HARNESS_RUN, env=kani_env())
    return parse_playback(p.stdout), p.stdout


def native_replay(cid, hname, tests, scratch):
    """run each extracted input natively (real code, no stubs) through `cargo kani playback`"""
    shutil.rmtree(scratch, ignore_errors=True)
    os.makedirs(scratch)
    shutil.copytree(os.path.join(HARNESS_RUN, "src"), os.path.join(scratch, "src"))
    shutil.copyfile(os.path.join(HARNESS_RUN, "Cargo.toml"), os.path.join(scratch, "Cargo.toml"))
    shutil.copyfile(os.path.join(HARNESS_RUN, "Cargo.lock"), os.path.join(scratch, "Cargo.lock"))
    mod = PROPS[cid]["module"]
    body = ["// generated by run_kani.py"]
    for i, t in enumerate(tests):
        vals = ",\n        ".join("vec![%s]" % ", ".join(str(b) for b in v) for v in t["values"])
        body.append(
            "#[test]\nfn replay_%d() {\n    unsafe { crate::util::NATIVE_REPLAY = 0x4e41_5431; }\n    let concrete_vals: Vec<Vec<u8>> = vec![\n        %s\n    ];\n    kani::concrete_playback_run(concrete_vals, crate::%s::%s);\n}\n"
            % (i, vals, mod, hname))
    open(os.path.join(scratch, "src", "replay_tests.rs"), "w").write("\n".join(body))
    with open(os.path.join(scratch, "src", "lib.rs"), "a") as f:
        f.write("\nmod replay_tests;\n")
    results = []
    for i, t in enumerate(tests):
        p = sh("cargo kani playback -Z concrete-playback -- replay_tests::replay_%d --exact --test-threads 1" % i, cwd=scratch, env=kani_env())
        out = p.stdout
        panicked = "panicked at" in out or "test result: FAILED" in out or "SIGABRT" in out or "SIGSEGV" in out
        passed = "test result: ok. 1 passed" in out
        m = re.search(r"panicked at ([^\n]*)\n([^\n]*)", out)
        results.append({"index": i, "kind": t["kind"], "description": t["description"], "panicked": panicked and not passed,
                        "passed": passed, "panic": (m.group(1) + " | " + m.group(2)) if m else None,
                        "tail": out[-600:] if not (passed or panicked) else None})
    shutil.rmtree(scratch, ignore_errors=True)
    return results


F64_CANDIDATES = [0.0, -0.0, 1.0, -1.0, 2.0, 3.0, -3.0, 0.5, -0.5, 4.0, 1e300, float("inf"), float("nan"), -7.0, 1001.0]
NOT_A_REPRODUCTION = ("kani::assume", "Not enough det vals", "bytes in the following det vals", "arena:", "VERIF_CAND")


def candidate_search(cid, hname, scratch, seed, limit=2500):
    """Fallback when the solver reports a failed check but no trace could be extracted (Kani prints
    none for panics with run-time formatted messages, and trace generation - which disables
    slicing - can time out).  The verdict stays the solver's; this only looks for a concrete input
    that reproduces it on the real code, natively: (1) the shape of the symbolic inputs (number and
    byte width of the kani::any() calls) is discovered by running the harness natively on growing
    all-zero vectors; (2) a grid of special values of that shape (signed zeros, small integers,
    halves, huge, infinities, NaN for 8-byte slots; 0..3 for 1-byte slots) is run, one process per
    candidate, through one test binary built once.  Only a candidate on which the harness really
    panics - for another reason than a violated kani::assume or a malformed vector - counts."""
    import glob, itertools, random, struct
    shutil.rmtree(scratch, ignore_errors=True)
    os.makedirs(scratch)
    shutil.copytree(os.path.join(HARNESS_RUN, "src"), os.path.join(scratch, "src"))
    for f in ("Cargo.toml", "Cargo.lock"):
        shutil.copyfile(os.path.join(HARNESS_RUN, f), os.path.join(scratch, f))
    mod = PROPS[cid]["module"]
    open(os.path.join(scratch, "src", "replay_tests.rs"), "w").write("""// generated by run_kani.py
#[test]
fn replay_env() {
    unsafe { crate::util::NATIVE_REPLAY = 0x4e41_5431; }
    let spec = std::env::var("VERIF_CAND").expect("VERIF_CAND");
    let vals: Vec<Vec<u8>> = spec.split(';').filter(|s| !s.is_empty()).map(|h| {
        (0..h.len() / 2).map(|i| u8::from_str_radix(&h[2 * i..2 * i + 2], 16).expect("VERIF_CAND hex")).collect()
    }).collect();
    kani::concrete_playback_run(vals, crate::%s::%s);
}
""" % (mod, hname))
    with open(os.path.join(scratch, "src", "lib.rs"), "a") as f:
        f.write("\nmod replay_tests;\n")
    env = kani_env()
    env["VERIF_CAND"] = ""
    b = sh("cargo kani playback -Z concrete-playback -- replay_tests::replay_env --exact --test-threads 1", cwd=scratch, env=env)
    m = re.search(r"Running unittests src/lib\.rs \(([^)]+)\)", b.stdout)
    bins = [os.path.join(scratch, m.group(1))] if m and os.path.exists(os.path.join(scratch, m.group(1))) else []
    if not bins:
        bins = [x for x in glob.glob(os.path.join(scratch, "target", "**", "blots_verif_harness-*"), recursive=True)
                if os.path.isfile(x) and os.access(x, os.X_OK) and "." not in os.path.basename(x)]
    if not bins:
        shutil.rmtree(scratch, ignore_errors=True)
        return [], "candidate search: test binary not found\n" + b.stdout[-1500:]
    binary = max(bins, key=os.path.getmtime)

    def run(vals):
        e = dict(env)
        e["VERIF_CAND"] = ";".join("".join("%02x" % x for x in v) for v in vals)
        try:
            r = subprocess.run([binary, "replay_tests::replay_env", "--exact", "--test-threads", "1"], stdout=subprocess.PIPE,
                               stderr=subprocess.STDOUT, text=True, errors="replace", env=e, cwd=scratch, timeout=20)
            return r.returncode, r.stdout
        except subprocess.TimeoutExpired:
            return 0, "timeout"

    # (1) shape discovery
    shape = []
    for _ in range(64):
        rc, out = run([[0] * n for n in shape])
        m = re.search(r"Expected (\d+) bytes in the following det vals", out)
        if "Not enough det vals" in out:
            shape.append(1)
        elif m:
            shape[-1] = int(m.group(1))
        else:
            break
    log = ["candidate search: input shape (bytes per kani::any()) = %s" % shape]
    if not shape:
        shutil.rmtree(scratch, ignore_errors=True)
        return [], "\n".join(log)
    # (2) the grid
    def slot_values(n):
        if n == 8:
            return [list(struct.pack("<d", x)) for x in F64_CANDIDATES]
        if n == 1:
            return [[0], [1], [2], [3]]
        return [[0] * n, [1] + [0] * (n - 1), [255] * n, [2] + [0] * (n - 1)]
    per_slot = [slot_values(n) for n in shape]
    total = 1
    for v in per_slot:
        total *= len(v)
    rnd = random.Random(seed)
    if total <= limit:
        grid = [list(c) for c in itertools.product(*per_slot)]
    else:
        grid = [[rnd.choice(v) for v in per_slot] for _ in range(limit)]
        grid.insert(0, [v[0] for v in per_slot])
    found = []
    tried = 0
    for vals in grid:
        tried += 1
        rc, out = run(vals)
        if rc != 0 and "panicked at" in out and not any(k in out for k in NOT_A_REPRODUCTION):
            m = re.search(r"panicked at ([^\n]*)\n([^\n]*)", out)
            found.append({"values": vals, "panic": (m.group(1) + " | " + m.group(2)) if m else out[-300:]})
            if len(found) >= 3:
                break
    log.append("candidate search: %d of %d grid points tried, %d reproduce natively" % (tried, len(grid), len(found)))
    shutil.rmtree(scratch, ignore_errors=True)
    return found, "\n".join(log)


def main():
    ap = argparse.ArgumentParser()
    ap.add_argument("cid")
    ap.add_argument("--tier", default=os.environ.get("VERIF_TIER", "quick"))
    ap.add_argument("--no-replay", action="store_true")
    ap.add_argument("--only", default=None, help="development aid: run only harnesses whose name contains this substring (evidence is still written; not used by MANIFEST commands)")
    a = ap.parse_args()
    cid, tier = a.cid.upper(), a.tier
    if cid not in PROPS or PROPS[cid].get("engine") != "kani":
        print("unknown property / not a kani check: %s" % cid)
        return 2
    cfg = PROPS[cid]
    seed = int(os.environ.get("VERIF_SEED", "0"))
    jobs = int(os.environ.get("VERIF_JOBS", str(cfg.get("jobs", 10))))
    timeout_s = int(os.environ.get("VERIF_HARNESS_TIMEOUT", str(cfg["timeout"][tier])))
    target = os.path.join(CACHE, "kani-target")
    os.makedirs(CACHE, exist_ok=True)
    t0 = time.time()
    prepare_crate()
    names = harness_names(cid)
    selected = [n for n in names if tier == "thorough" or "_q_" in n]
    if a.only:
        selected = [n for n in names if a.only in n or n.startswith("c00_")]
    if not selected:
        print("no harnesses selected")
        return 2
    out, wall_kani, out_dir, cmdline = run_family(cid, tier, jobs, timeout_s, target, a.only)
    open(os.path.join(CACHE, "last_%s_%s.log" % (cid, tier)), "w").write(out)
    if "error: could not compile" in out or "Failed to execute cargo" in out:
        print(out[-3000:])
        print("INCONCLUSIVE property=%s harness crate does not build against the current tree" % cid)
        write_evidence(cid, tier, seed, cfg, [], {}, [], [], t0, cmdline, build_failed=True)
        return 2

    known = load_known()
    results = {}
    for n in selected:
        path = None
        if os.path.isdir(out_dir):
            for f in os.listdir(out_dir):
                if f.endswith("::" + n):
                    path = os.path.join(out_dir, f)
        results[n] = parse_result(path) if path else {"status": "missing", "failed_checks": [], "checks": 0, "covers_sat": 0, "covers_total": 0, "time_s": None, "failed": 0, "unreachable": 0}

    inconclusive, violations, known_hits, replays = [], [], [], []
    for n, r in sorted(results.items()):
        if r["status"] in ("timeout", "oom", "error", "missing", "unknown"):
            inconclusive.append((n, r["status"]))
            continue
        if r["covers_total"] and r["covers_sat"] < r["covers_total"] and r["status"] == "success":
            inconclusive.append((n, "reachability witness unsatisfied (%d of %d)" % (r["covers_sat"], r["covers_total"])))
            continue
        if r["status"] == "failed":
            real = [fc for fc in r["failed_checks"] if not is_bound_failure(fc)]
            if len(real) < len(r["failed_checks"]):
                inconclusive.append((n, "unwinding/arena bound too small"))
            unknown_fcs = []
            for fc in real:
                k = match_known(known, cid, n, fc)
                if k:
                    known_hits.append((n, fc, k))
                else:
                    unknown_fcs.append(fc)
            if unknown_fcs:
                violations.append((n, unknown_fcs))

    exit_code = 0
    confirmed = []
    for n, fcs in violations:
        if a.no_replay:
            confirmed.append((n, fcs, None, None))
            continue
        # trace generation disables formula slicing: give the extraction run more time than the check
        tests, raw = extract_counterexamples(cid, n, target, int(os.environ.get("VERIF_EXTRACT_TIMEOUT", str(max(1800, 3 * timeout_s)))))
        open(os.path.join(CACHE, "last_playback_%s.log" % n), "w").write(raw)
        fail_tests = [t for t in tests if t["kind"] != "cover"]
        if not fail_tests and tests:
            # Kani produced no trace for the failed check itself (it does that for panics whose
            # message is formatted at run time).  The reachability witnesses give the shape of the
            # symbolic inputs; they, and all-zero / all-one vectors of the same shape, are tried as
            # candidate inputs for the native replay.  Only a candidate that really panics counts.
            cands = []
            for t in tests:
                cands.append({"kind": "candidate(cover:%s)" % t["description"], "description": fcs[0]["description"], "values": t["values"]})
            shape = tests[0]["values"]
            cands.append({"kind": "candidate(zeros)", "description": fcs[0]["description"], "values": [[0] * len(v) for v in shape]})
            cands.append({"kind": "candidate(ones)", "description": fcs[0]["description"], "values": [[255] * len(v) for v in shape]})
            fail_tests = cands
        rr = native_replay(cid, n, fail_tests, os.path.join("/var/tmp", "blots-verif-replay-%d" % os.getpid())) if fail_tests else []
        reproduced = [x for x in rr if x["panicked"]]
        solver_trace = any(not t["kind"].startswith("candidate") for t in fail_tests)
        if not reproduced and not solver_trace:
            # no trace for the failed check itself (or none at all): look for a reproducing input
            found, clog = candidate_search(cid, n, os.path.join("/var/tmp", "blots-verif-cand-%d" % os.getpid()), seed)
            print("  [%s] %s" % (n, clog.replace("\n", "\n  [%s] " % n)))
            for k, c in enumerate(found):
                t = {"kind": "candidate(grid)", "description": fcs[0]["description"], "values": c["values"]}
                fail_tests.append(t)
                x = {"index": len(rr), "kind": t["kind"], "description": t["description"], "panicked": True, "passed": False, "panic": c["panic"], "tail": None}
                rr.append(x)
                reproduced.append(x)
        if not fail_tests:
            inconclusive.append((n, "failed check but no counterexample could be extracted or found"))
            continue
        os.makedirs(os.path.join(os.environ.get("VERIF_EVIDENCE_DIR", VERIF), "replays") if os.environ.get("VERIF_EVIDENCE_DIR") else os.path.join(VERIF, "replays"), exist_ok=True)
        rp = os.path.join(os.path.join(os.environ["VERIF_EVIDENCE_DIR"], "replays") if os.environ.get("VERIF_EVIDENCE_DIR") else os.path.join(VERIF, "replays"), "%s-%s.json" % (cid, n))
        json.dump({"property": cid, "harness": n, "failed_checks": fcs, "counterexamples": fail_tests,
                   "native_replay": rr,
                   "how_to_replay": "values are the kani::any() byte strings in call order; run_kani.py generates a #[test] calling kani::concrete_playback_run(values, %s::%s) and runs `cargo kani playback`" % (cfg["module"], n)},
                  open(rp, "w"), indent=1)
        replays.append({"harness": n, "reproduced": len(reproduced), "of": len(rr)})
        if reproduced:
            confirmed.append((n, fcs, rp, reproduced))
        else:
            inconclusive.append((n, "counterexample did not reproduce natively (encoding/stub fault?) see %s" % rp))

    for n, fc, k in known_hits:
        print("KNOWN-FINDING: property=%s %s [harness %s: %s]" % (cid, k["what"], n, fc["description"]))
    for n, fcs, rp, rep in confirmed:
        print("VIOLATION property=%s replay=%s" % (cid, rp or "(replay skipped)"))
        for fc in fcs:
            print("  harness %s: %s (%s:%d)" % (n, fc["description"], fc["file"], fc["line"]))
        exit_code = 1
    for n, why in inconclusive:
        print("INCONCLUSIVE property=%s harness=%s: %s" % (cid, n, why))
    if inconclusive and exit_code == 0:
        exit_code = 2

    write_evidence(cid, tier, seed, cfg, selected, results, confirmed, inconclusive, t0, cmdline,
                   known_hits=known_hits, replays=replays, wall_kani=wall_kani)
    ok = sum(1 for r in results.values() if r["status"] == "success")
    print("%s %s: %d harnesses, %d discharged, %d violations, %d known findings, %d inconclusive, %.0f s"
          % (cid, tier, len(selected), ok, len(confirmed), len(known_hits), len(inconclusive), time.time() - t0))
    return exit_code


def write_evidence(cid, tier, seed, cfg, selected, results, confirmed, inconclusive, t0, cmdline,
                   known_hits=(), replays=(), wall_kani=0.0, build_failed=False):
    checks = sum(r.get("checks", 0) for r in results.values())
    ok = [n for n, r in results.items() if r["status"] == "success"]
    covers = sum(r.get("covers_sat", 0) for r in results.values())
    solver_time = sum((r.get("time_s") or 0.0) for r in results.values())
    samples = []
    for n in selected[:60]:
        r = results.get(n, {})
        samples.append({"harness": n, "status": r.get("status"), "cbmc_properties": r.get("checks"),
                        "reachability_witnesses": "%s/%s" % (r.get("covers_sat"), r.get("covers_total")),
                        "cbmc_time_s": r.get("time_s")})
    ev = {
        "property_id": cid,
        "tier": tier,
        "seed": seed,
        "level": "model_checking",
        "coverage": {
            "states": max(checks, 1) if not build_failed else 1,
            "transitions": max(len(ok), 1) if not build_failed else 1,
            "traces_validated_against_impl": sum(x["of"] for x in replays),
            "samples": samples or [{"note": "no harness ran"}],
            "explanation": "states = CBMC properties (assertions, panics, bounds, overflow, unwinding) decided over all values of the symbolic inputs; transitions = harnesses discharged (UNSAT for every property); traces = counterexamples replayed natively",
            "harnesses_selected": len(selected),
            "harnesses_discharged": len(ok),
            "reachability_witnesses_satisfied": covers,
            "queries_discharged": checks,
            "solver_time_s": round(solver_time, 1),
            "kani_wall_s": round(wall_kani, 1),
            "functions_encoded": cfg.get("functions", []),
            "bounds": cfg.get("bounds", ""),
            "outside_the_claim": cfg.get("outside", ""),
            "inconclusive": [{"harness": n, "why": w} for n, w in inconclusive],
            "known_findings_hit": [{"harness": n, "check": fc["description"], "what": k["what"]} for n, fc, k in known_hits],
            "replays": list(replays),
            "kani_cmd": cmdline,
            "build_failed": build_failed,
        },
        "assumptions": COMMON_ASSUMPTIONS + cfg.get("assumptions", []),
        "wall_s": round(time.time() - t0, 1),
        "violations": len(confirmed),
    }
    os.makedirs(os.environ.get("VERIF_EVIDENCE_DIR", os.path.join(VERIF, "evidence")), exist_ok=True)
    json.dump(ev, open(os.path.join(os.environ.get("VERIF_EVIDENCE_DIR", os.path.join(VERIF, "evidence")), "%s.json" % cid), "w"), indent=1)


if __name__ == "__main__":
    sys.exit(main())
