"""Per-property configuration of the checks (bounds, functions encoded, what lies outside)."""

PROPS = {
    "C04": {
        "engine": "kani", "module": "c04", "timeout": {"quick": 600, "thorough": 1800},
        "functions": ["values::FunctionArity::can_accept", "functions::FunctionDef::check_arity", "values::LambdaDef::get_arity", "functions::BuiltInFunction::arity"],
        "bounds": "argument count: any usize; parameter lists: the enumerated shapes of <= 3 parameters",
        "outside": "definition-time capture and positional binding through Environment (std HashMap) - see DESIGN.md",
    },
    "C07": {
        "engine": "kani", "module": "c07", "timeout": {"quick": 600, "thorough": 1800},
        "functions": ["ast_to_source::needs_parens_in_binop", "precedence::operator_info", "ast_to_source::expr_to_source"],
        "bounds": "every ordered (parent op, child op, side) over the 26 binary operators (symbolic); two-level ASTs with identifier/null leaves",
        "outside": "that pest re-parses the emitted text as the table says (parser side of the round trip); comments; multi-line layouts",
    },
    "C10": {
        "engine": "kani", "module": "c10", "timeout": {"quick": 600, "thorough": 1800},
        "functions": ["precedence::operator_info (PRECEDENCE_TABLE)"],
        "bounds": "all 26 BinaryOp variants (symbolic operator)",
        "outside": "that pest's PrattParser turns the table into those trees; layout insensitivity; identifier lexing",
    },
    "C11": {
        "engine": "kani", "module": "c11", "timeout": {"quick": 900, "thorough": 2400},
        "functions": ["expressions::evaluate_ast", "expressions::evaluate_binary_op_ast", "values::Value::{as_number,as_bool,equals,compare}"],
        "bounds": "one harness per operator and operand shape; numbers any f64 (mantissa restricted where stated in the harness name), lists of length 0..2",
        "outside": "lists longer than 2, strings other than the fixed table entries, libm accuracy of ^ and %",
    },
    "C12": {
        "engine": "kani", "module": "c12", "timeout": {"quick": 900, "thorough": 2400},
        "functions": ["values::Value::equals", "values::Value::compare", "expressions::check_ordering (through evaluate_ast)"],
        "bounds": "scalar pairs/triples over all f64/bool/null; lists of length <= 2 of numbers",
        "outside": "records (IndexMap), strings beyond the fixed table, lists longer than 2",
    },
}
