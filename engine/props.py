"""Per-property configuration of the checks (bounds, functions encoded, what lies outside)."""

PROPS = {
    "C04": {
        "engine": "kani", "module": "c04", "timeout": {"quick": 600, "thorough": 1800},
        "functions": ["values::FunctionArity::can_accept", "functions::FunctionDef::check_arity", "values::LambdaDef::get_arity", "functions::BuiltInFunction::arity"],
        "bounds": "argument count: any usize; parameter lists: the enumerated shapes of <= 3 parameters",
        "outside": "definition-time capture and positional binding through Environment (std HashMap) - see DESIGN.md",
    },
    "C06": {
        "engine": "kani", "module": "c06", "timeout": {"quick": 900, "thorough": 2400},
        "functions": ["values::SerializableValue::to_json", "values::SerializableValue::from_json", "values::SerializableValue::to_value", "values::SerializableValue::from_value", "heap::Heap::insert_list", "heap::Heap::insert_string"],
        "bounds": "scalars: every finite double (JSON value stage), every double / boolean / null (heap stage); strings: 3 ASCII bytes (thorough); lists: flat, exactly 3 scalar elements (number, boolean, number) with symbolic contents, each direction of the heap stage separately; one shared-substructure shape [row, row] with row = [a]",
        "outside": "the JSON text stage (serde_json writer/reader, ryu printing, float parsing: float<->text, input-proportional scanners), records (IndexMap), lists through the JSON value stage, nested lists built by the code under test, the whole in-process chain on lists, lists of other lengths, non-ASCII strings, the CLI's parse_json_inputs / write_outputs",
        "assumptions": ["anyhow error construction = failed check (scalar harnesses) or end of path (list harnesses, whose results are unwrapped: an Err fails the check)", "shared-substructure harness: parser::get_pairs, expr_to_source_with_scope and parse_function_source replaced by failing cuts (plain data must not reach the function-source machinery)"],
    },
    "C07": {
        "engine": "kani", "module": "c07", "timeout": {"quick": 600, "thorough": 1800},
        "functions": ["ast_to_source::needs_parens_in_binop", "precedence::operator_info", "ast_to_source::expr_to_source"],
        "bounds": "every ordered (parent op, child op, side) over the 26 binary operators (symbolic); two-level ASTs with identifier/null leaves",
        "outside": "that pest re-parses the emitted text as the table says (parser side of the round trip); comments; multi-line layouts",
    },
    "C10": {
        "engine": "kani", "module": "c10", "timeout": {"quick": 600, "thorough": 1800},
        "functions": ["precedence::operator_info (PRECEDENCE_TABLE)"],
        "bounds": "all 26 BinaryOp variants (symbolic operator)",
        "outside": "that pest's PrattParser turns the table into those trees; layout insensitivity; identifier lexing",
    },
    "C11": {
        "engine": "kani", "module": "c11", "timeout": {"quick": 900, "thorough": 2400},
        "functions": ["expressions::evaluate_ast", "expressions::evaluate_binary_op_ast", "values::Value::{as_number,as_bool,equals,compare}"],
        "bounds": "one harness per operator and operand shape; numbers any f64 (mantissa restricted where stated in the harness name), lists of length 0..2",
        "outside": "lists longer than 2, strings other than the fixed table entries, libm accuracy of ^ and %",
    },
    "C12": {
        "engine": "kani", "module": "c12", "timeout": {"quick": 900, "thorough": 2400},
        "functions": ["values::Value::equals", "values::Value::compare", "expressions::check_ordering (through evaluate_ast)"],
        "bounds": "scalar pairs/triples over all f64/bool/null; lists of length <= 2 of numbers; ASCII strings of 0..2 symbolic bytes in separate heap cells",
        "outside": "records (IndexMap), strings longer than 2 bytes or with multi-byte characters, lists longer than 2",
    },
    "C14": {
        "engine": "kani", "module": "c14", "timeout": {"quick": 900, "thorough": 2400},
        "functions": ["expressions::evaluate_ast (Expr::Access, Expr::List with spreads)", "functions::BuiltInFunction::call (Len, Head, Tail, Slice, Concat, Unique, Sort, Reverse, Flatten, Zip, Chunk, Range)"],
        "bounds": "lists of numbers of length <= 3 (any f64 payload; NaN excluded where order matters); index / slice bounds symbolic integral doubles in a small range, any double for the totality harness; flatten(chunk(l, n)) with the concrete sizes 2 and 3 on a 2-element list (size 1 and symbolic sizes end in CBMC Status: ERROR)",
        "outside": "strings (byte- vs character-based functions), records (keys/values/entries, group_by, count_by: IndexMap), sort_by, split/join, lists longer than 3; fractional indices (the statement does not define them)",
    },
    "C15": {
        "engine": "kani", "module": "c15", "timeout": {"quick": 900, "thorough": 2400},
        "functions": ["functions::BuiltInFunction::call (Min, Max, Avg, Sum, Prod, Median, Percentile; list and varargs branches)"],
        "bounds": "1..3 numbers (4 for percentile membership and, in the thorough tier, for median / min / max with mantissas restricted to the top 6 bits); sum/prod/avg with mantissas restricted to the top few bits (two adder/multiplier circuits must be proved equivalent), min/max/median/percentile any non-NaN double; percentile p, q any doubles in [0,100]",
        "outside": "more than 3 numbers (4 for median/min/max/percentile membership), rounding bounds of long sums, permutation invariance beyond what list-vs-varargs and the order-statistic references imply",
    },
    "C01": {
        "engine": "kani", "module": "c01", "timeout": {"quick": 900, "thorough": 2400},
        "functions": ["functions::BuiltInFunction::call (all arms reachable with scalar / short-list arguments)", "expressions::evaluate_ast (PostfixOp, UnaryOp, Spread, Access)"],
        "bounds": "arguments: any f64 (doubles in every numeric position), lists of 0..2 numbers; one harness per (built-in, shape) for the shapes d, dd, l, ld, ll, ldd; loops proportional to a numeric argument (range longer than 1 element, factorial above 6) are assumed away and stated",
        "outside": "parsing, source formatting, error rendering (ariadne), JSON, records, lambdas as arguments, strings, float->text inside to_string/format, boolean / null arguments to built-ins (the symbolic-kind shapes are unregistered c01_x_* harnesses), includes (Value::reify is mis-modelled by Kani, DESIGN 2(12))",
        "assumptions": ["panic-freedom harnesses are `cut` harnesses: constructing an anyhow type-error value ends the path (what follows is `?` propagation)"],
    },
    "C18": {
        "engine": "kani", "module": "c18", "timeout": {"quick": 900, "thorough": 2400},
        "functions": ["functions::FunctionDef::call (depth guard, built-in branch)", "functions::FunctionDef::check_arity", "expressions::evaluate_ast (Conditional, List, BinaryOp arms: call_depth plumbing)", "expressions::evaluate_binary_op_ast (into / via / where / ?? arms)"],
        "bounds": "call_depth: any usize; one built-in callee; propagation: one call (x into abs) bare vs wrapped in a conditional, a ?? operand, a list element, via and where callbacks",
        "outside": "that 1000 nested calls fit the native stack and that a few hundred levels complete in the release CLI (CBMC has no stack model); lambda callees (Environment/HashMap); do-blocks (Environment::extend + drop does not finish); the Expr::Call arm (Kani mis-models that variant, DESIGN 2(12))",
        "assumptions": ["std::time::Instant::now stubbed with a fixed instant (only stored in the call-statistics log)", "propagation harnesses: FunctionDef::call replaced by a recorder of the depth it receives (the guard inside the real call is decided by c18_q_builtin_depth_guard)"],
    },
    "C02": {
        "engine": "kani", "module": "c02", "timeout": {"quick": 900, "thorough": 2400},
        "functions": ["functions::BuiltInFunction::call (every one-argument built-in, symbolic choice)", "expressions::evaluate_ast (broadcast arm)", "heap::Heap::insert"],
        "bounds": "argument list of 3 non-NaN numbers; one call / evaluation repeated twice on the same heap",
        "outside": "hash-seed / process independence (RandomState is stubbed), print / time_now, let-abstraction of sub-expressions at program level (needs bindings: Environment/HashMap)",
    },
    "C13": {
        "engine": "kani", "module": "c13", "timeout": {"quick": 900, "thorough": 2400},
        "functions": ["expressions::evaluate_binary_op_ast (via / into / where arms)", "functions::BuiltInFunction::call (Map, Filter, Every, Some, Abs, Min, Floor, ToBool, Len)", "functions::get_function_def", "functions::FunctionArity::can_accept (index passing)"],
        "bounds": "lists of 0 or 2 numbers / booleans with symbolic contents; built-in callees abs, floor, min (index-accepting), to_bool, len",
        "outside": "lambda and named recursive callees (Environment/HashMap, lambda bodies), reduce, sort_by / group_by, lists of other lengths, the f(x) call *expression* (Expr::Call is mis-modelled by Kani, DESIGN 2(12): application is the built-in's implementation on the same argument), FunctionDef::call's own depth guard / statistics / error context",
        "assumptions": ["FunctionDef::call replaced by a dispatcher that keeps the arity check and calls the real BuiltInFunction::call of the callee on a constant selector for abs / min / floor / to_bool / len and fails the check for any other callee (util::stub_function_def_call_small_builtins)", "std::time::Instant::now stubbed with a fixed instant"],
    },
}
