#!/bin/bash
# runs the targeted check for every seeded change (isolated worktrees; /repo untouched); results in .cache/logs/seed_*.out
cd /verif
run() { engine/seed_isolated.sh "$@"; }
slot1() {
run C11-scalar-left-compare-swapped 1 C11 --tier thorough --only c11_q_sl_gt
run C11-coalesce-scalar-left-mirrored-b 1 C11 --tier thorough --only c11_q_sl_coalesce
run C11-modulo-list-list-euclid-b 1 C11 --tier thorough --only c11_t_ll_mod
run C11-len-check-one-sided 1 C11 --tier thorough --only c11_q_ll_len_mismatch_add
run C12-m1-number-total-cmp 1 C12 --tier quick --only c12_q_num_num_trichotomy
run C12-m2-lte-gte-equality-shortcut 1 C12 --tier quick --only c12_q_dot_ops_unordered
run C12-number-equality-tolerance-b 1 C12 --tier quick --only c12_q_num_num_trichotomy
run C14-access-negative-fraction 1 C14 --tier quick --only c14_q_index
run C14-slice-start-at-len 1 C14 --tier quick --only c14_q_slice_bounds
run C14-sort-total-order-signed-zero-b 1 C14 --tier quick --only c14_q_sort2_stable
run C14-range-empty-interval-rejected-b 1 C14 --tier quick --only c14_q_range_small
}
slot2() {
run C15-max-varargs-fold-seed 2 C15 --tier quick --only c15_q_max3
run C15-percentile-p50-median-path 2 C15 --tier quick --only c15_q_percentile4
run C15-percentile-upper-bound-exclusive-b 2 C15 --tier quick --only c15_q_percentile3
run C01-round-negative-places 2 C01 --tier quick --only c01_q_round_dd
run C01-chunk-fractional-size 2 C01 --tier quick --only c01_q_chunk_sizes
run C01-display-number-near-1e15 2 C01 --tier quick --only c01_q_sqrt_d
run C07-coalesce-joins-power-level 2 C10 --tier quick
run C07-assoc-parent-drops-right-parens 2 C07 --tier quick
run C07-multiline-record-dynamic-key 2 C07 --tier quick
run C04-arity-optional-before-rest-counted-required 2 C04 --tier thorough
}
slot3() {
run C18-depth-guard-named-only 3 C18 --tier quick
run C02-sort-numeric-fastpath-in-place 3 C02 --tier quick --only c02_q_sort_pure
run C02-unique-hash-order-leak 3 C02 --tier thorough --only c02_t_unique_pure
run C02-sorted-numbers-cache-across-heaps 3 C02 --tier quick --only c02_q_median_two_heaps
run C04-capture-nested-lambda-param-leaks-into-outer-bound-set 3 C04 --tier quick
run C04-binding-self-name-shadows-same-named-parameter 3 C04 --tier quick
run C17-a_table_picogram_coefficient 3 C17
run C17-b_formula_fahrenheit_to_kelvin_ratio 3 C17
run C17-c_convert_same_name_shortcut 3 C17
run C17-d_resolve_exact_uses_lowercased 3 C17
}
slot1 > .cache/logs/matrix1.out 2>&1 &
slot2 > .cache/logs/matrix2.out 2>&1 &
slot3 > .cache/logs/matrix3.out 2>&1 &
wait
