#!/bin/bash
# repository test-suite with the verification feature OFF (the default build)
cd /repo || exit 2
if command -v cargo-nextest >/dev/null 2>&1 && [ -f /w/lib/nextest.toml ]; then
  exec cargo nextest run --workspace --no-fail-fast --tool-config-file pb:/w/lib/nextest.toml --profile pb --test-threads 8 --offline < /dev/null
fi
exec cargo test --workspace --no-fail-fast --offline < /dev/null
