#!/bin/bash
# offline setup: nothing to fetch; warm the Kani build of the harness crate (a cache only -
# every check rebuilds from /repo's working tree).
cd "$(dirname "$0")/.." || exit 1
export CARGO_NET_OFFLINE=true
mkdir -p .cache evidence replays
cp /repo/Cargo.lock harness/Cargo.lock
python3 -c "import json,sys; json.load(open('MANIFEST.json'))" || exit 1
( cd harness && cargo kani --target-dir ../.cache/kani-target -Z unstable-options -Z stubbing --only-codegen --harness c10_q_ >/dev/null 2>&1 ) || echo "warning: kani warm-up build failed (checks will report it)"
python3-vt -c "import z3; print('z3', z3.get_version_string())" || exit 1
exit 0
