#!/usr/bin/env python3
"""summarise .cache/logs/seed_*.out into the markdown table of DESIGN.md section 8 and into seeded/*/meta.json"""
import glob, json, os, re
rows=[]
for d in sorted(glob.glob('/verif/seeded/*/')):
    name=os.path.basename(d.rstrip('/'))
    meta=json.load(open(d+'meta.json'))
    log='/verif/.cache/logs/seed_%s.out'%name
    verdict='not run'; chk=''
    if os.path.exists(log):
        t=open(log,errors='replace').read()
        m=re.search(r'^(C\d+) (quick|thorough): .*$', t, re.M)
        chk=m.group(0) if m else ''
        if 'VIOLATION property=' in t:
            hs=re.findall(r'  harness (\w+): ([^\n]*)', t)
            if hs:
                verdict='caught: %s (%s)' % (hs[0][0], hs[0][1][:70])
            else:
                vs=re.findall(r'^  (\S[^\n]*)', t, re.M)
                verdict='caught: ' + (vs[0][:100] if vs else 'VIOLATION')
        elif 'INCONCLUSIVE' in t:
            verdict='inconclusive: '+re.findall(r'INCONCLUSIVE[^\n]*',t)[0][:110]
        else:
            verdict='missed (check passes)'
    meta['detection']=verdict
    meta['check_run']=chk
    json.dump(meta,open(d+'meta.json','w'),indent=1)
    rows.append((name,meta['breaks_property'],meta['needs_to_manifest'],verdict))
print('| seeded change | property | needs | result of the targeted check |')
print('|---|---|---|---|')
for r in rows:
    print('| `%s` | %s | %s | %s |' % r)
