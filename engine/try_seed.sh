#!/bin/bash
# usage: try_seed.sh <seeded-dir> <cmd...>   apply the seeded patch to /repo, run the check command, revert
d=$1; shift
cd /repo || exit 2
if [ -n "$(git status --porcelain)" ]; then echo "/repo not clean"; exit 2; fi
git apply "$d/patch.diff" || { echo "patch does not apply"; exit 2; }
( cd /verif && "$@" ); rc=$?
git -C /repo checkout -- .
echo "try_seed: $(basename $d): exit=$rc"
exit $rc
