#!/usr/bin/env python3
"""C17 - unit conversion consistency, decided by an SMT encoding regenerated from
/repo/blots-core/src/units.rs on every run (engine E2 of DESIGN.md).

What is extracted from the source text (nothing is hard-coded about the table):
  * every `Unit::new_linear / new_reciprocal / new_temperature(...)` row of `get_all_units()`:
    category, identifier list, coefficient expression (evaluated with IEEE double semantics);
  * the expression trees of `convert_to_base`, `convert_from_base` (per ConversionType arm) and
    of the five temperature functions;
  * the category guard and the composition order of `convert`;
  * the decision list of `resolve_unit` (conditions on exact_matches / case_matches and the
    action each one takes).
Floating point is modelled soundly over the reals with one relative-error variable per
operation: fl(a o b) = (a o b)(1+d), |d| <= 2^-53 (round-to-nearest, valid while results stay
in the normal range - checked by a separate magnitude query).  The unit index, the magnitude
and the error variables are symbolic; z3 decides each negated property (UNSAT = holds for every
unit of the table and every magnitude in the stated range; SAT = concrete counterexample, which
is replayed through the real `units::convert`).

exit 0: all queries UNSAT / replays agree;  exit 1: VIOLATION (reproduced natively);
exit 2: inconclusive (source shape not recognised, solver unknown/timeout, replay mismatch).
"""
import argparse
import json
import os
import re
import subprocess
import sys
import time
from fractions import Fraction

import z3

VERIF = os.path.dirname(os.path.dirname(os.path.abspath(__file__)))
REPO = os.environ.get("VERIF_REPO", "/repo")
CACHE = os.environ.get("VERIF_CACHE", os.path.join(VERIF, ".cache"))
CID = "C17"
U = Fraction(1, 2 ** 53)  # unit roundoff


class Inconclusive(Exception):
    pass


# ------------------------------------------------------------------------------------------
# 1. extraction
def rust_float(tok):
    t = tok.replace("_", "")
    return float(t)


class ExprParser:
    """tiny parser for Rust arithmetic expressions over identifiers and float literals"""

    def __init__(self, text):
        self.toks = re.findall(r"\s*([A-Za-z_][A-Za-z0-9_:]*|[0-9][0-9_]*(?:\.[0-9_]*)?(?:e-?[0-9]+)?|[-+*/()])", text)
        if "".join(self.toks).replace(" ", "") != re.sub(r"\s+", "", text):
            raise Inconclusive("cannot tokenise expression %r" % text)
        self.i = 0

    def peek(self):
        return self.toks[self.i] if self.i < len(self.toks) else None

    def eat(self):
        t = self.toks[self.i]
        self.i += 1
        return t

    def parse(self):
        e = self.add()
        if self.peek() is not None:
            raise Inconclusive("trailing tokens in expression")
        return e

    def add(self):
        e = self.mul()
        while self.peek() in ("+", "-"):
            op = self.eat()
            e = (op, e, self.mul())
        return e

    def mul(self):
        e = self.atom()
        while self.peek() in ("*", "/"):
            op = self.eat()
            e = (op, e, self.atom())
        return e

    def atom(self):
        t = self.eat()
        if t == "(":
            e = self.add()
            if self.eat() != ")":
                raise Inconclusive("unbalanced parentheses")
            return e
        if t == "-":
            return ("neg", self.atom())
        if re.match(r"[0-9]", t):
            return ("lit", rust_float(t))
        return ("var", t)


def eval_const(e):
    """evaluate a constant expression with IEEE double semantics (rustc const-eval of f64)"""
    k = e[0]
    if k == "lit":
        return e[1]
    if k == "var":
        if e[1].endswith("consts::PI"):
            import math
            return math.pi
        raise Inconclusive("unknown constant %s" % e[1])
    if k == "neg":
        return -eval_const(e[1])
    a, b = eval_const(e[1]), eval_const(e[2])
    return {"+": a + b, "-": a - b, "*": a * b, "/": a / b}[k]


def extract(src):
    m = re.search(r"pub fn get_all_units\(\) -> Vec<Unit> \{\s*vec!\[(.*?)\n    \]\n\}", src, re.S)
    if not m:
        raise Inconclusive("get_all_units() table not found")
    body = m.group(1)
    # strip comments
    body = re.sub(r"//[^\n]*", "", body)
    rows = []
    pos = 0
    for m in re.finditer(r"Unit::new_(linear|reciprocal|temperature)\(", body):
        kind = m.group(1)
        # find the matching close paren
        depth, j = 1, m.end()
        while depth:
            c = body[j]
            if c == "(":
                depth += 1
            elif c == ")":
                depth -= 1
            elif c == '"':
                j = body.index('"', j + 1)
            j += 1
        args = body[m.end():j - 1]
        ids = re.findall(r'"([^"]*)"', args)
        lst = re.search(r"&\[(.*?)\]", args, re.S)
        if not lst or not ids:
            raise Inconclusive("row without identifier list: %r" % args[:60])
        rest = args[lst.end():].strip().strip(",").strip()
        if kind == "temperature":
            fns = [x.strip() for x in rest.split(",") if x.strip()]
            if len(fns) != 2:
                raise Inconclusive("temperature row: %r" % rest)
            rows.append({"kind": kind, "cat": "Temperature", "ids": ids, "to": fns[0], "from": fns[1]})
        else:
            cat = re.match(r"\s*UnitCategory::(\w+)", args)
            if not cat:
                raise Inconclusive("row without category")
            coef = eval_const(ExprParser(rest).parse())
            rows.append({"kind": kind, "cat": cat.group(1), "ids": ids, "coef_src": rest, "coef": coef})
    if len(rows) < 50:
        raise Inconclusive("only %d rows extracted" % len(rows))

    # conversion arms
    def arms(fn):
        m = re.search(r"pub fn %s\(&self, value: f64\) -> f64 \{\s*match &self\.conversion \{(.*?)\n        \}\n    \}" % fn, src, re.S)
        if not m:
            raise Inconclusive("%s not found" % fn)
        b = m.group(1)
        out = {}
        ml = re.search(r"ConversionType::Linear \{ coefficient \} => ([^,\n]*),", b)
        if not ml:
            raise Inconclusive("%s: linear arm" % fn)
        out["linear"] = ExprParser(ml.group(1)).parse()
        mr = re.search(r"ConversionType::Reciprocal \{ coefficient \} => \{\s*if value == 0\.0 \{\s*(.*?)\s*\} else \{\s*(.*?)\s*\}\s*\}", b, re.S)
        if not mr:
            raise Inconclusive("%s: reciprocal arm" % fn)
        out["reciprocal_zero"] = mr.group(1).strip()
        out["reciprocal"] = ExprParser(mr.group(2)).parse()
        mt = re.search(r"ConversionType::Temperature \{ (\w+), \.\. \} => (\w+)\(value\)", b)
        if not mt or mt.group(1) != mt.group(2):
            raise Inconclusive("%s: temperature arm" % fn)
        out["temperature_field"] = mt.group(1)
        return out

    to_base, from_base = arms("convert_to_base"), arms("convert_from_base")
    if to_base["temperature_field"] != "to_kelvin" or from_base["temperature_field"] != "from_kelvin":
        # still encodable: the field decides which of the row's two functions is used
        pass
    tfuncs = {}
    for m in re.finditer(r"fn (\w+)\((\w+): f64\) -> f64 \{\s*([^{}]*?)\s*\}", src):
        name, arg, bodyx = m.groups()
        if name.endswith("kelvin") or "_to_" in name:
            try:
                tfuncs[name] = (arg, ExprParser(bodyx).parse())
            except Inconclusive:
                pass
    # convert(): statement-level parse.  Recognised statements (in order of appearance): optional
    # early returns `if <string predicate on from_unit/to_unit> { return Ok(value); }`, the two
    # resolutions, the category guard, the two base conversions, `Ok(result)`.
    m = re.search(r"pub fn convert\(value: f64, from_unit: &str, to_unit: &str\) -> Result<f64> \{(.*?)\n\}", src, re.S)
    if not m:
        raise Inconclusive("convert() not found")
    cb = re.sub(r"//[^\n]*", "", m.group(1))
    rest = cb
    early = []
    def take(pattern, text, flags=re.S):
        mm = re.search(pattern, text, flags)
        if not mm:
            return None, text
        return mm, text[:mm.start()] + text[mm.end():]
    # early returns before the resolutions
    mpre = re.search(r"let \w+ = resolve_unit\(", rest)
    pre_end = mpre.start() if mpre else -1
    pre = rest[:pre_end] if pre_end >= 0 else ""
    PREDS_ALL = {
        "from_unit==to_unit": "eq", "to_unit==from_unit": "eq",
        "from_unit.eq_ignore_ascii_case(to_unit)": "eq_ascii_ci", "to_unit.eq_ignore_ascii_case(from_unit)": "eq_ascii_ci",
        "from_unit.to_lowercase()==to_unit.to_lowercase()": "eq_ci", "to_unit.to_lowercase()==from_unit.to_lowercase()": "eq_ci",
    }
    for em in re.finditer(r"if\s+(.*?)\s*\{\s*return\s+(Ok\((\w+)\)|Err\(.*?\));\s*\}", pre, re.S):
        cond = re.sub(r"\s+", "", em.group(1))
        PREDS = {
            "from_unit==to_unit": "eq", "to_unit==from_unit": "eq",
            "from_unit.eq_ignore_ascii_case(to_unit)": "eq_ascii_ci", "to_unit.eq_ignore_ascii_case(from_unit)": "eq_ascii_ci",
            "from_unit.to_lowercase()==to_unit.to_lowercase()": "eq_ci", "to_unit.to_lowercase()==from_unit.to_lowercase()": "eq_ci",
        }
        if cond not in PREDS:
            raise Inconclusive("convert(): early return on an unrecognised condition %r" % em.group(1))
        if em.group(3) is not None and em.group(3) != "value":
            raise Inconclusive("convert(): early return of an unrecognised expression")
        early.append({"pred": PREDS[cond], "ok": em.group(3) is not None})
    pre_left = re.sub(r"if\s+(.*?)\s*\{\s*return\s+(Ok\((\w+)\)|Err\(.*?\));\s*\}", "", pre, flags=re.S)
    if pre_left.strip():
        raise Inconclusive("convert(): unrecognised statements before the resolutions: %r" % pre_left.strip()[:80])
    rest = rest[len(pre):]
    g, rest2 = take(r"if\s+(\w+)\.category\s*(!=|==)\s*(\w+)\.category\s*\{\s*return Err\(anyhow!\(.*?\)\);\s*\}", rest)
    guard = None
    if g:
        guard = {"op": g.group(2), "lhs": g.group(1), "rhs": g.group(3)}
        rest = rest2
    mres, rest = take(r"let from = resolve_unit\((\w+)\)\?;\s*let to = resolve_unit\((\w+)\)\?;", rest)
    if not mres:
        raise Inconclusive("convert(): resolution of the two identifiers not recognised")
    # early returns after the resolutions (both identifiers resolved; after the category guard when
    # the guard precedes them in the source): same predicates, decided under those path conditions
    LATE = r"if\s+([^{}]*?)\s*\{\s*return\s+Ok\((\w+)\);\s*\}"
    for em in list(re.finditer(LATE, rest, re.S)):
        cond = re.sub(r"\s+", "", em.group(1))
        if cond not in PREDS_ALL:
            raise Inconclusive("convert(): early return on an unrecognised condition %r" % em.group(1))
        if em.group(2) != "value":
            raise Inconclusive("convert(): early return of an unrecognised expression")
        after_guard = bool(g) and cb.find(g.group(0)) < cb.find(em.group(0))
        early.append({"pred": PREDS_ALL[cond], "ok": True, "late": True, "after_guard": after_guard})
    rest = re.sub(LATE, "", rest, flags=re.S)
    c1, rest = take(r"let (\w+) = (\w+)\.convert_to_base\((\w+)\);", rest)
    c2, rest = take(r"let (\w+) = (\w+)\.convert_from_base\((\w+)\);", rest)
    if not c1 or not c2 or c2.group(3) != c1.group(1):
        raise Inconclusive("convert(): composition not recognised")
    okm, rest = take(r"Ok\(%s\)" % c2.group(1), rest)
    if not okm:
        raise Inconclusive("convert(): result expression not recognised")
    if rest.strip():
        raise Inconclusive("convert(): unrecognised statements: %r" % rest.strip()[:80])
    comp = {"to_base_of": c1.group(2), "to_base_arg": c1.group(3), "from_base_of": c2.group(2),
            "from_arg": mres.group(1), "to_arg": mres.group(2), "early": early}
    if comp["from_arg"] != "from_unit" or comp["to_arg"] != "to_unit":
        raise Inconclusive("convert(): the identifiers are resolved in an unexpected order")
    # resolve_unit decision list
    m = re.search(r"pub fn resolve_unit\(identifier: &str\) -> Result<Unit> \{(.*?)\n\}", src, re.S)
    if not m:
        raise Inconclusive("resolve_unit() not found")
    rb = m.group(1)
    if not re.search(r"let identifier_lower = identifier\.to_lowercase\(\);", rb):
        raise Inconclusive("resolve_unit(): identifier_lower not recognised")
    mx = re.search(r"let is_exact = unit\.matches_exact\(&?(identifier|identifier_lower)\);", rb)
    mc = re.search(r"\.any\(\|alias\| (alias\.to_lowercase\(\)|\*?alias) == &?(identifier_lower|identifier)\)", rb)
    if not mx or not mc or not re.search(r"if is_exact \{\s*exact_matches\.push", rb) or not re.search(r"if is_case \{\s*case_matches\.push", rb):
        raise Inconclusive("resolve_unit(): match collection not recognised")
    matchsem = {"exact_query": mx.group(1), "case_alias": "lower" if "to_lowercase" in mc.group(1) else "raw", "case_query": mc.group(2)}
    if not re.search(r"pub fn matches_exact\(&self, identifier: &str\) -> bool \{\s*self\.identifiers\.contains\(&identifier\)", src):
        raise Inconclusive("matches_exact not recognised")
    decisions = []
    for dm in re.finditer(r"if (exact_matches|case_matches)\.(?:len\(\) (==|>|>=|<|<=|!=) (\d+)|(is_empty)\(\)) \{\s*(.*?)\n    \}", rb, re.S):
        which, op, n, empty, act = dm.groups()
        cond = (which, "==", 0) if empty else (which, op, int(n))
        okm = re.search(r"return Ok\((\w+)\.remove\((\d+)\)\)", act)
        if okm:
            action = ("ok", okm.group(1), int(okm.group(2)))
        elif "return Err" in act or "Err(" in act:
            action = ("err",)
        else:
            raise Inconclusive("resolve_unit(): action not recognised: %r" % act[:60])
        decisions.append((cond, action))
    tail = rb[rb.rfind("suggestions.dedup();"):]
    final = ("err",) if re.search(r"\n\s*Err\(anyhow!", tail) else None
    if final is None:
        raise Inconclusive("resolve_unit(): final action not recognised")
    decisions.append(((None, None, None), final))
    return {"rows": rows, "to_base": to_base, "from_base": from_base, "tfuncs": tfuncs, "guard": guard, "comp": comp, "decisions": decisions, "matchsem": matchsem}


# ------------------------------------------------------------------------------------------
# 2. encoding
class Enc:
    """real-arithmetic encoding with one relative error variable per floating-point operation"""

    def __init__(self):
        self.n = 0
        self.deltas = []
        self.side = []  # magnitude side conditions (every op result, for the range query)

    def delta(self):
        d = z3.Real("d%d" % self.n)
        self.n += 1
        self.deltas.append(d)
        return d

    def rnd(self, e, exact=False):
        if exact:
            return e
        self.side.append(e)
        return e * (1 + self.delta())

    def tr(self, e, env, exact=False):
        k = e[0]
        if k == "lit":
            return z3.RealVal(Fraction(e[1]))
        if k == "var":
            if e[1] not in env:
                raise Inconclusive("free variable %s" % e[1])
            return env[e[1]]
        if k == "neg":
            return -self.tr(e[1], env, exact)
        a, b = self.tr(e[1], env, exact), self.tr(e[2], env, exact)
        r = {"+": a + b, "-": a - b, "*": a * b, "/": a / b}[k]
        return self.rnd(r, exact)

    def bounds(self):
        u = z3.RealVal(U)
        return [z3.And(d >= -u, d <= u) for d in self.deltas]


class EncAbs:
    """linear encoding for affine formulas (temperatures): every operation result is a fresh
    variable within an *absolute* error u*B of the exact result, B an interval bound of the
    exact result's magnitude (computed alongside).  Sound: |fl(e) - e| <= u|e| <= u*B."""

    def __init__(self):
        self.n = 0
        self.cons = []

    def bounds(self):
        return self.cons

    def rnd(self, e, iv):
        b = max(abs(iv[0]), abs(iv[1])) * (1 + 1e-9)
        err = Fraction(b) * U
        r = z3.Real("r%d" % self.n)
        self.n += 1
        self.cons.append(z3.And(r - e <= z3.RealVal(err), e - r <= z3.RealVal(err)))
        e_ = float(err)
        return r, (iv[0] - e_, iv[1] + e_)

    def tr(self, e, env, exact=False):
        """returns (term, interval)"""
        k = e[0]
        if k == "lit":
            return z3.RealVal(Fraction(e[1])), (e[1], e[1])
        if k == "var":
            return env[e[1]]
        if k == "neg":
            t, iv = self.tr(e[1], env)
            return -t, (-iv[1], -iv[0])
        (a, ia), (b, ib) = self.tr(e[1], env), self.tr(e[2], env)
        if k == "+":
            r, iv = a + b, (ia[0] + ib[0], ia[1] + ib[1])
        elif k == "-":
            r, iv = a - b, (ia[0] - ib[1], ia[1] - ib[0])
        elif k == "*":
            if ib[0] != ib[1] and ia[0] != ia[1]:
                raise Inconclusive("non-linear product in an affine (temperature) formula")
            r = a * b
            ps = [ia[0] * ib[0], ia[0] * ib[1], ia[1] * ib[0], ia[1] * ib[1]]
            iv = (min(ps), max(ps))
        else:
            if ib[0] != ib[1] or ib[0] == 0:
                raise Inconclusive("division by a non-constant in an affine (temperature) formula")
            r = a * z3.RealVal(1 / Fraction(ib[0]))
            ps = [ia[0] / ib[0], ia[1] / ib[0]]
            iv = (min(ps), max(ps))
        return self.rnd(r, iv)


def temp_convert(enc, ex, a, b, xt):
    """convert(x, a, b) for temperature rows in the affine encoding; xt = (term, interval)"""
    comp = ex["comp"]
    names = {"from": a, "to": b}
    first, second = names[comp["to_base_of"]], names[comp["from_base_of"]]
    fn1 = first["to"] if ex["to_base"]["temperature_field"] == "to_kelvin" else first["from"]
    arg, body = ex["tfuncs"][fn1]
    v = enc.tr(body, {arg: xt})
    fn2 = second["from"] if ex["from_base"]["temperature_field"] == "from_kelvin" else second["to"]
    arg, body = ex["tfuncs"][fn2]
    return enc.tr(body, {arg: v})


def rv(x):
    """numeral of the exact value of a double; z3 terms (symbolic coefficients) pass through"""
    if isinstance(x, z3.ExprRef):
        return x
    return z3.RealVal(Fraction(x))


def to_base_term(enc, ex, row, x, exact=False):
    if row["kind"] == "linear":
        return enc.tr(ex["to_base"]["linear"], {"value": x, "coefficient": rv(row["coef"])}, exact)
    if row["kind"] == "reciprocal":
        return enc.tr(ex["to_base"]["reciprocal"], {"value": x, "coefficient": rv(row["coef"])}, exact)
    fn = row["to"] if ex["to_base"]["temperature_field"] == "to_kelvin" else row["from"]
    arg, body = ex["tfuncs"][fn]
    return enc.tr(body, {arg: x}, exact)


def from_base_term(enc, ex, row, v, exact=False):
    if row["kind"] == "linear":
        return enc.tr(ex["from_base"]["linear"], {"value": v, "coefficient": rv(row["coef"])}, exact)
    if row["kind"] == "reciprocal":
        return enc.tr(ex["from_base"]["reciprocal"], {"value": v, "coefficient": rv(row["coef"])}, exact)
    fn = row["from"] if ex["from_base"]["temperature_field"] == "from_kelvin" else row["to"]
    arg, body = ex["tfuncs"][fn]
    return enc.tr(body, {arg: v}, exact)


def convert_term(enc, ex, a, b, x, exact=False):
    """value of convert(x, a, b) following the composition extracted from convert()"""
    comp = ex["comp"]
    names = {"from": a, "to": b}
    first = names[comp["to_base_of"]]
    second = names[comp["from_base_of"]]
    if comp["to_base_arg"] != "value":
        raise Inconclusive("convert(): unexpected argument of convert_to_base")
    return from_base_term(enc, ex, second, to_base_term(enc, ex, first, x, exact), exact)


def convert_ok(ex, a, b):
    """does convert() return Ok for units a, b (both resolved)?"""
    g = ex["guard"]
    if g is None:
        return True
    same = a["cat"] == b["cat"]
    err = (not same) if g["op"] == "!=" else same
    return not err


# ------------------------------------------------------------------------------------------
# 3. native driver (translator validation + replay of counterexamples)
PROBE_SRC = r'''
use std::io::BufRead;
fn main() {
    let stdin = std::io::stdin();
    for line in stdin.lock().lines() {
        let line = line.unwrap();
        let p: Vec<&str> = line.split('\t').collect();
        if p[0] == "convert" {
            let v: f64 = f64::from_bits(u64::from_str_radix(p[1], 16).unwrap());
            match blots_core::units::convert(v, p[2], p[3]) {
                Ok(r) => println!("ok\t{:016x}", r.to_bits()),
                Err(e) => println!("err\t{}", e.to_string().replace('\n', " ")),
            }
        } else if p[0] == "resolve" {
            match blots_core::units::resolve_unit(p[1]) {
                Ok(u) => println!("ok\t{}\t{}", u.category.name(), u.identifiers[0]),
                Err(e) => println!("err\t{}", e.to_string().replace('\n', " ")),
            }
        }
    }
}
'''


def build_probe():
    d = os.path.join(CACHE, "units_probe")
    os.makedirs(os.path.join(d, "src"), exist_ok=True)
    open(os.path.join(d, "Cargo.toml"), "w").write(
        '[package]\nname = "units_probe"\nversion = "0.0.0"\nedition = "2021"\n[dependencies]\nblots-core = { path = "%s/blots-core" }\n[workspace]\n' % REPO)
    open(os.path.join(d, "src", "main.rs"), "w").write(PROBE_SRC)
    import shutil
    shutil.copyfile(os.path.join(REPO, "Cargo.lock"), os.path.join(d, "Cargo.lock"))
    env = dict(os.environ, CARGO_NET_OFFLINE="true", CARGO_TARGET_DIR=os.path.join(CACHE, "native-target"))
    p = subprocess.run(["cargo", "build", "--offline", "-q"], cwd=d, env=env, stdout=subprocess.PIPE, stderr=subprocess.STDOUT, text=True)
    if p.returncode != 0:
        raise Inconclusive("native probe does not build against the current tree:\n" + p.stdout[-1500:])
    return os.path.join(CACHE, "native-target", "debug", "units_probe")


def run_probe(binp, lines):
    p = subprocess.run([binp], input="\n".join(lines) + "\n", stdout=subprocess.PIPE, stderr=subprocess.STDOUT, text=True)
    out = p.stdout.strip().split("\n")
    if len(out) != len(lines):
        raise Inconclusive("probe output mismatch: %s" % p.stdout[-500:])
    return [o.split("\t") for o in out]


def f2hex(x):
    import struct
    return "%016x" % struct.unpack("<Q", struct.pack("<d", x))[0]


def hex2f(h):
    import struct
    return struct.unpack("<d", struct.pack("<Q", int(h, 16)))[0]


# ------------------------------------------------------------------------------------------
# 4. the queries
class Run:
    def __init__(self, tier, seed):
        self.tier = tier
        self.seed = seed
        self.queries = 0
        self.unsat = 0
        self.solver_time = 0.0
        self.samples = []
        self.violations = []   # (kind, description, replay lines)
        self.inconclusive = []
        self.timeout_ms = 60000 if tier == "quick" else 300000
        self.second = {"cvc5": {}, "z3-4.8": {}}
        self.second_time = 0.0

    def check_gross_first(self, name, constraints, diff_terms, tol):
        """negated property |a - b| > tol; a model with a gross violation (1e3 x) is preferred as the
        witness because it survives native rounding"""
        a, b = diff_terms
        m = self.check(name + " [gross]", constraints + [z3.Or(a - b > rv(tol * 1e6), b - a > rv(tol * 1e6))])
        if m is not None:
            return m
        return self.check(name, constraints + [z3.Or(a - b > rv(tol), b - a > rv(tol))])

    def check(self, name, constraints, describe=None):
        s = z3.Solver()
        s.set("timeout", self.timeout_ms)
        s.add(*constraints)
        t0 = time.time()
        r = s.check()
        dt = time.time() - t0
        self.queries += 1
        self.solver_time += dt
        if dt > 2 and os.environ.get('VERIF_DEBUG'):
            print('slow query %.1fs %s %s' % (dt, name, r), flush=True)
        if len(self.samples) < 40:
            self.samples.append({"query": name, "verdict": str(r), "solver_s": round(dt, 3)})
        if r == z3.unsat:
            self.unsat += 1
            if self.tier == "thorough":
                self.second_opinion(name, s)
            return None
        if r == z3.unknown:
            self.inconclusive.append("%s: solver returned unknown (%s)" % (name, s.reason_unknown()))
            return None
        return s.model()


def _second_opinion(self, name, solver):
    """thorough tier: every UNSAT answer of the deciding solver (the z3 of the tooling venv) is
    re-decided from the exported SMT-LIB text by two independent solver builds, cvc5 1.0 and the
    system z3 4.8.12.  `unknown` / timeout from a second solver is no opinion; `sat` is a
    disagreement and makes the run inconclusive."""
    d = os.path.join(os.environ.get("VERIF_CACHE", os.path.join(os.path.dirname(os.path.dirname(os.path.abspath(__file__))), ".cache")), "c17_smt")
    os.makedirs(d, exist_ok=True)
    path = os.path.join(d, "q%d.smt2" % os.getpid())
    open(path, "w").write("(set-logic ALL)\n" + solver.to_smt2())
    for label, cmd in (("cvc5", ["cvc5", "--lang", "smt2", "--tlimit=20000", path]), ("z3-4.8", ["/usr/bin/z3", "-T:20", path])):
        try:
            t0 = time.time()
            out = subprocess.run(cmd, stdout=subprocess.PIPE, stderr=subprocess.STDOUT, text=True, timeout=40).stdout
            self.second_time += time.time() - t0
        except (subprocess.TimeoutExpired, OSError):
            out = "timeout"
        lines = [l.strip() for l in out.splitlines()]
        if "(error" in out:
            verdict = "no-opinion"
        elif "unsat" in lines:
            verdict = "unsat"
        elif "sat" in lines:
            verdict = "sat"
        else:
            verdict = "no-opinion"
        self.second[label][verdict] = self.second[label].get(verdict, 0) + 1
        if verdict == "sat":
            self.inconclusive.append("%s: %s answers sat where the deciding solver answered unsat" % (name, label))


Run.second_opinion = _second_opinion


def mag_constraints(x, lo, hi, allow_zero=True):
    pos = z3.And(x >= rv(lo), x <= rv(hi))
    neg = z3.And(x <= rv(-lo), x >= rv(-hi))
    return z3.Or(pos, neg, x == 0) if allow_zero else z3.Or(pos, neg)


def model_float(m, x):
    v = m.eval(x, model_completion=True)
    fr = Fraction(v.numerator_as_long(), v.denominator_as_long()) if z3.is_rational_value(v) else Fraction(str(v.approx(20)).rstrip("?"))
    return float(fr)


def main():
    ap = argparse.ArgumentParser()
    ap.add_argument("--tier", default=os.environ.get("VERIF_TIER", "quick"))
    a = ap.parse_args()
    tier = a.tier
    seed = int(os.environ.get("VERIF_SEED", "0"))
    t0 = time.time()
    run = Run(tier, seed)
    known = json.load(open(os.path.join(VERIF, "known_findings.json"))) if os.path.exists(os.path.join(VERIF, "known_findings.json")) else {"findings": []}
    status = 0
    ex = None
    replays = 0
    try:
        src = open(os.path.join(REPO, "blots-core", "src", "units.rs")).read()
        ex = extract(src)
        rows = ex["rows"]
        binp = build_probe()
        cats = sorted(set(r["cat"] for r in rows))
        bycat = {c: [r for r in rows if r["cat"] == c] for c in cats}
        LO, HI = 1e-12, 1e12

        # ---- T0: translator validation: native convert vs the encoding (error variables free)
        import random
        rng = random.Random(seed)
        lines, expect = [], []
        for c in cats:
            us = bycat[c]
            for _ in range(6 if tier == "quick" else 30):
                a_, b_ = rng.choice(us), rng.choice(us)
                x = rng.choice([1.0, -2.5, 1e-9, 123456.789, 0.1, 3.0, 1e9, 273.15, -40.0]) * rng.choice([1, 1, 10, 0.001])
                if c == "Temperature":
                    x = rng.uniform(-500, 5000)
                # first (long, lower-case) names: resolution of aliases is decided by the identifier queries
                lines.append("convert\t%s\t%s\t%s" % (f2hex(x), a_["ids"][0], b_["ids"][0]))
                expect.append((a_, b_, x))
        outs = run_probe(binp, lines)
        nval = 0
        for (a_, b_, x), o, ln in zip(expect, outs, lines):
            if o[0] != "ok":
                # ambiguity of the chosen identifier is decided by the identifier queries below
                continue
            xv = z3.Real("x")
            if a_["cat"] == "Temperature":
                enc = EncAbs()
                term, _ = temp_convert(enc, ex, a_, b_, (xv, (x - 1e-9, x + 1e-9)))
            else:
                enc = Enc()
                term = convert_term(enc, ex, a_, b_, xv)
            got = Fraction(hex2f(o[1]))
            mdl = run.check("translator-validation %s" % ln.replace("\t", " "), [xv == z3.RealVal(Fraction(x)), term == z3.RealVal(got)] + enc.bounds())
            if mdl is None and not run.inconclusive:
                raise Inconclusive("encoding does not contain the native result for %s (got %r)" % (ln, hex2f(o[1])))
            run.unsat += 0
            nval += 1
        replays += nval
        # the validation queries are SAT by design; do not count them as discharged obligations
        run.queries -= nval
        run.unsat -= 0

        # ---- Q1..Q3 numeric laws, per category, symbolic unit indices
        def unit_sel(name, us):
            """symbolic unit index over `us`; returns (index var, constraints)"""
            i = z3.Int(name)
            return i, [i >= 0, i < len(us)]

        def cases(i, us, fn):
            """ite-chain over the units of a category"""
            t = fn(us[-1])
            for k in range(len(us) - 2, -1, -1):
                t = z3.If(i == k, fn(us[k]), t)
            return t

        # Linear / reciprocal units: the laws are decided for *symbolic coefficients* ranging over
        # the interval spanned by the category's table entries (a superset of the table), one query
        # per combination of conversion kinds; temperature units are enumerated (3 units).
        x = z3.Real("x")
        for c in cats:
            us = bycat[c]
            if c == "Temperature":
                dom = z3.And(x >= -1000000, x <= 1000000)
                xt = (x, (-1e6, 1e6))
                for ua in us:
                    enc = EncAbs()
                    r, _ = temp_convert(enc, ex, ua, ua, xt)
                    m = run.check_gross_first("self %s/%s" % (c, ua["ids"][0]), [dom] + enc.bounds(), (r, x), 2e-9)
                    if m is not None:
                        run.violations.append(("self-conversion", "convert(x, %s, %s) is not x within rounding" % (ua["ids"][0], ua["ids"][0]), [("convert", model_float(m, x), ua["ids"][0], ua["ids"][0])], {"abs": 2e-9}))
                    for ub in us:
                        enc = EncAbs()
                        y = temp_convert(enc, ex, ua, ub, xt)
                        back, _ = temp_convert(enc, ex, ub, ua, y)
                        m = run.check_gross_first("there-and-back %s/%s->%s" % (c, ua["ids"][0], ub["ids"][0]), [dom] + enc.bounds(), (back, x), 4e-9)
                        if m is not None:
                            run.violations.append(("there-and-back", "convert(convert(x, %s, %s), %s, %s) is not x within rounding" % (ua["ids"][0], ub["ids"][0], ub["ids"][0], ua["ids"][0]),
                                                   [("convert", model_float(m, x), ua["ids"][0], ub["ids"][0])], {"abs": 4e-9}))
                        for uc in us:
                            enc = EncAbs()
                            y = temp_convert(enc, ex, ua, ub, xt)
                            via, _ = temp_convert(enc, ex, ub, uc, y)
                            direct, _ = temp_convert(enc, ex, ua, uc, xt)
                            m = run.check_gross_first("transitivity %s/%s->%s->%s" % (c, ua["ids"][0], ub["ids"][0], uc["ids"][0]), [dom] + enc.bounds(), (via, direct), 6e-9)
                            if m is not None:
                                run.violations.append(("transitivity", "A->B->C differs from A->C for %s, %s, %s" % (ua["ids"][0], ub["ids"][0], uc["ids"][0]),
                                                       [("convert", model_float(m, x), ua["ids"][0], ub["ids"][0]), ("convert", model_float(m, x), ua["ids"][0], uc["ids"][0])], {"chain": uc["ids"][0], "abs": 6e-9}))
                continue
            kinds = sorted(set(u["kind"] for u in us))
            coefs = [u["coef"] for u in us]
            bad_rows = [u for u in us if not (u["coef"] > 0 and u["coef"] < float("inf"))]
            for u in bad_rows:
                run.violations.append(("coefficient", "coefficient of %s is not finite and positive" % u["ids"][0], [("convert", 1.0, u["ids"][0], u["ids"][0])], {}))
            if bad_rows:
                continue
            cmin, cmax = min(coefs), max(coefs)
            recip = "reciprocal" in kinds
            dom = mag_constraints(x, LO, HI, allow_zero=not recip)
            absx = z3.If(x >= 0, x, -x)

            def sym(kind, name):
                cvar = z3.Real(name)
                return {"kind": kind, "coef": cvar, "ids": ["<any %s unit of %s>" % (kind, c)]}, z3.And(cvar >= rv(cmin), cvar <= rv(cmax))

            def witness(m, kind, cvar_row):
                """a table unit of that kind (for the replay); the model's coefficient need not be a table entry"""
                cand = [u for u in us if u["kind"] == kind]
                return cand[0]

            for ka in kinds:
                ra, ca = sym(ka, "ca")
                enc = Enc()
                r = convert_term(enc, ex, ra, ra, x)
                m = run.check("self %s/%s (symbolic coefficient)" % (c, ka), [dom, ca, z3.Or(r - x > 3 * rv(U) * absx, x - r > 3 * rv(U) * absx)] + enc.bounds())
                if m is not None:
                    wa = witness(m, ka, ra)
                    run.violations.append(("self-conversion", "convert(x, u, u) is not x within rounding for %s units of %s" % (ka, c), [("convert", model_float(m, x), wa["ids"][0], wa["ids"][0])], {}))
                for kb in kinds:
                    rb, cb = sym(kb, "cb")
                    enc = Enc()
                    y = convert_term(enc, ex, ra, rb, x)
                    back = convert_term(enc, ex, rb, ra, y)
                    m = run.check("there-and-back %s/%s->%s (symbolic coefficients)" % (c, ka, kb), [dom, ca, cb, z3.Or(back - x > 6 * rv(U) * absx, x - back > 6 * rv(U) * absx)] + enc.bounds())
                    if m is not None:
                        wa, wb = witness(m, ka, ra), [u for u in us if u["kind"] == kb][-1]
                        run.violations.append(("there-and-back", "there-and-back is not the identity within rounding for %s -> %s units of %s" % (ka, kb, c),
                                               [("convert", model_float(m, x), wa["ids"][0], wb["ids"][0])], {}))
                    for kc in kinds:
                        rc, cc = sym(kc, "cc")
                        enc = Enc()
                        y = convert_term(enc, ex, ra, rb, x)
                        via = convert_term(enc, ex, rb, rc, y)
                        direct = convert_term(enc, ex, ra, rc, x)
                        absd = z3.If(direct >= 0, direct, -direct)
                        m = run.check("transitivity %s/%s->%s->%s (symbolic coefficients)" % (c, ka, kb, kc), [dom, ca, cb, cc, z3.Or(via - direct > 9 * rv(U) * absd, direct - via > 9 * rv(U) * absd)] + enc.bounds())
                        if m is not None:
                            wa, wb, wc = witness(m, ka, ra), [u for u in us if u["kind"] == kb][-1], [u for u in us if u["kind"] == kc][len([u for u in us if u["kind"] == kc]) // 2]
                            run.violations.append(("transitivity", "A->B->C differs from A->C for %s -> %s -> %s units of %s" % (ka, kb, kc, c),
                                                   [("convert", model_float(m, x), wa["ids"][0], wb["ids"][0]), ("convert", model_float(m, x), wa["ids"][0], wc["ids"][0])], {"chain": wc["ids"][0]}))
            # model validity: every intermediate stays in the normal range
            lo_mid = LO * cmin / cmax / 4
            hi_mid = HI * cmax / cmin * 4
            if not (lo_mid > 1e-290 and hi_mid < 1e290):
                run.inconclusive.append("category %s: intermediates may leave the normal range (%g, %g)" % (c, lo_mid, hi_mid))

        # ---- Q4 metric prefixes
        PREF = {"yocto": -24, "zepto": -21, "atto": -18, "femto": -15, "pico": -12, "nano": -9, "micro": -6, "milli": -3, "centi": -2, "deci": -1,
                "deca": 1, "deka": 1, "hecto": 2, "kilo": 3, "mega": 6, "giga": 9, "tera": 12, "peta": 15, "exa": 18, "zetta": 21, "yotta": 24}
        BIN = {"kibi": 10, "mebi": 20, "gibi": 30, "tebi": 40, "pebi": 50, "exbi": 60, "zebi": 70, "yobi": 80}
        npref = 0
        for c in cats:
            us = bycat[c]
            if c == "Temperature":
                continue
            names = {}
            for u in us:
                for ident in u["ids"]:
                    names.setdefault(ident, u)
            for u in us:
                long = u["ids"][0]
                words = long.split(" ")
                for wi, w in enumerate(words):
                    for table, base in ((PREF, 10), (BIN, 2)):
                        for p, k in table.items():
                            if w.startswith(p) and len(w) > len(p):
                                base_name = " ".join(words[:wi] + [w[len(p):]] + words[wi + 1:])
                                if base_name in names and names[base_name] is not u:
                                    ub = names[base_name]
                                    # `square`/`cubic` units scale with the power of the dimension
                                    dim = 2 if words[0] == "square" else 3 if words[0] == "cubic" else 1
                                    factor = Fraction(base) ** (k * dim)
                                    x = z3.Real("x")
                                    enc = Enc()
                                    y = convert_term(enc, ex, u, ub, x)
                                    want = x * z3.RealVal(factor)
                                    absw = z3.If(want >= 0, want, -want)
                                    bad = z3.Or(y - want > 5 * rv(U) * absw, want - y > 5 * rv(U) * absw)
                                    m = run.check("prefix %s = %s^%d %s" % (long, base, k * dim, base_name), [mag_constraints(x, 1e-6, 1e6), bad] + enc.bounds())
                                    npref += 1
                                    if m is not None:
                                        xv = model_float(m, x)
                                        run.violations.append(("prefix-ratio", "convert(x, %s, %s) is not x * %s^%d" % (long, base_name, base, k * dim),
                                                               [("convert", xv, long, base_name)], {"factor": float(factor)}))
        if npref < 20:
            run.inconclusive.append("only %d metric-prefix pairs recognised" % npref)

        # ---- Q5 category guard: units of different categories are never convertible
        n = len(rows)
        i, j = z3.Int("i"), z3.Int("j")
        catid = {c: k for k, c in enumerate(cats)}
        cat_i = z3.Int("cat_i")
        cat_j = z3.Int("cat_j")

        def table(var, out, values):
            return z3.And(*[z3.Implies(var == k, out == v) for k, v in enumerate(values)])

        g = ex["guard"]
        if g is None:
            ok_expr = z3.BoolVal(True)
        else:
            same = cat_i == cat_j
            err = z3.Not(same) if g["op"] == "!=" else same
            ok_expr = z3.Not(err)
        base = [i >= 0, i < n, j >= 0, j < n, table(i, cat_i, [catid[r["cat"]] for r in rows]), table(j, cat_j, [catid[r["cat"]] for r in rows])]
        m = run.check("different categories never convertible", base + [cat_i != cat_j, ok_expr])
        if m is not None:
            ua, ub = rows[m.eval(i).as_long()], rows[m.eval(j).as_long()]
            run.violations.append(("category-guard", "convert succeeds across categories: %s (%s) -> %s (%s)" % (ua["ids"][0], ua["cat"], ub["ids"][0], ub["cat"]),
                                   [("convert", 1.0, ua["ids"][0], ub["ids"][0])], {"expect_err": True}))
        m = run.check("same category always convertible", base + [cat_i == cat_j, z3.Not(ok_expr)])
        if m is not None:
            ua, ub = rows[m.eval(i).as_long()], rows[m.eval(j).as_long()]
            run.violations.append(("category-guard", "convert fails inside a category: %s -> %s" % (ua["ids"][0], ub["ids"][0]), [("convert", 1.0, ua["ids"][0], ub["ids"][0])], {"expect_ok": True}))

        # ---- Q6 identifier resolution (symbolic identifier occurrence / query string)
        occ = [(ui, ident) for ui, r in enumerate(rows) for ident in r["ids"]]
        strs = sorted(set(s for _, s in occ) | set(s.lower() for _, s in occ) | set(s.upper() for _, s in occ))
        sid = {s: k for k, s in enumerate(strs)}
        # specification tables: per query string, the units having it as an exact identifier and the
        # units having an identifier equal to it ignoring case
        spec_exact = {k: sorted(set(ui for ui, s_ in occ if sid[s_] == k)) for k in range(len(strs))}
        lower_units = {}
        for ui, s_ in occ:
            lower_units.setdefault(s_.lower(), set()).add(ui)
        spec_case = {k: sorted(lower_units.get(strs[k].lower(), ())) for k in range(len(strs))}
        # implementation tables: what resolve_unit's extracted matching computes
        ms = ex["matchsem"]
        def impl_exact_units(k):
            qs = strs[k] if ms["exact_query"] == "identifier" else strs[k].lower()
            return sorted(set(ui for ui, s_ in occ if s_ == qs))
        def impl_case_units(k):
            qs = strs[k] if ms["case_query"] == "identifier" else strs[k].lower()
            return sorted(set(ui for ui, s_ in occ if (s_.lower() if ms["case_alias"] == "lower" else s_) == qs))
        impl_exact = {k: impl_exact_units(k) for k in range(len(strs))}
        impl_case = {k: impl_case_units(k) for k in range(len(strs))}
        q = z3.Int("q")
        ne, nc, fe, fc = z3.Int("n_exact"), z3.Int("n_case"), z3.Int("first_exact"), z3.Int("first_case")
        sne, snc, sfe, sfc = z3.Int("spec_n_exact"), z3.Int("spec_n_case"), z3.Int("spec_first_exact"), z3.Int("spec_first_case")
        R = range(len(strs))
        tbl = [q >= 0, q < len(strs),
               table(q, ne, [len(impl_exact[k]) for k in R]), table(q, nc, [len(impl_case[k]) for k in R]),
               table(q, fe, [impl_exact[k][0] if impl_exact[k] else -1 for k in R]), table(q, fc, [impl_case[k][0] if impl_case[k] else -1 for k in R]),
               table(q, sne, [len(spec_exact[k]) for k in R]), table(q, snc, [len(spec_case[k]) for k in R]),
               table(q, sfe, [spec_exact[k][0] if spec_exact[k] else -1 for k in R]), table(q, sfc, [spec_case[k][0] if spec_case[k] else -1 for k in R])]
        # the decision list of resolve_unit, as extracted
        res_ok, res_unit = z3.Bool("res_ok"), z3.Int("res_unit")
        conds = []
        for (which, op, nn), act in ex["decisions"]:
            if which is None:
                cnd = z3.BoolVal(True)
            else:
                v = ne if which == "exact_matches" else nc
                cnd = {"==": v == nn, ">": v > nn, ">=": v >= nn, "<": v < nn, "<=": v <= nn, "!=": v != nn}[op]
            conds.append((cnd, act))
        chain_ok, chain_unit = z3.BoolVal(False), z3.IntVal(-1)
        for cnd, act in reversed(conds):
            if act[0] == "ok":
                if act[2] != 0:
                    raise Inconclusive("resolve_unit(): remove(%d) not encodable" % act[2])
                uu = fe if act[1] == "exact_matches" else fc
                chain_ok, chain_unit = z3.If(cnd, z3.BoolVal(True), chain_ok), z3.If(cnd, uu, chain_unit)
            else:
                chain_ok, chain_unit = z3.If(cnd, z3.BoolVal(False), chain_ok), z3.If(cnd, z3.IntVal(-1), chain_unit)
        sem = tbl + [res_ok == chain_ok, res_unit == chain_unit]
        exact_units, case_units = spec_exact, spec_case
        # (a) never guessed: Ok only for the unique exact match, or (no exact match and) the unique
        #     case-insensitive match
        m = run.check("resolution never guesses", sem + [res_ok, z3.Not(z3.Or(z3.And(sne == 1, res_unit == sfe), z3.And(sne == 0, snc == 1, res_unit == sfc)))])
        if m is not None:
            s_ = strs[m.eval(q).as_long()]
            run.violations.append(("resolution", "identifier %r resolves to a unit that is not its unique (exact / case-insensitive) match" % s_, [("resolve", s_)], {"expect_not_guess": True, "allowed": ([rows[spec_exact[sid[s_]][0]]["ids"][0]] if len(spec_exact[sid[s_]]) == 1 else ([rows[spec_case[sid[s_]][0]]["ids"][0]] if (not spec_exact[sid[s_]] and len(spec_case[sid[s_]]) == 1) else []))}))
        # (b) unambiguous identifiers resolve to their unit
        m = run.check("unique exact identifier resolves to its unit", sem + [sne == 1, z3.Not(z3.And(res_ok, res_unit == sfe))])
        if m is not None:
            s_ = strs[m.eval(q).as_long()]
            run.violations.append(("resolution", "identifier %r (unique exact match) does not resolve to its unit" % s_, [("resolve", s_)], {"expect_unit": rows[exact_units[sid[s_]][0]]["ids"][0]}))
        m = run.check("unique case-insensitive identifier resolves to its unit", sem + [sne == 0, snc == 1, z3.Not(z3.And(res_ok, res_unit == sfc))])
        if m is not None:
            s_ = strs[m.eval(q).as_long()]
            run.violations.append(("resolution", "identifier %r (unique case-insensitive match) does not resolve" % s_, [("resolve", s_)], {"expect_unit": rows[case_units[sid[s_]][0]]["ids"][0]}))
        # (c) every identifier listed for a unit resolves exactly to that unit: no identifier is listed, with
        #     identical casing, for two units.  Symbolic pair of occurrences.
        o1, o2 = z3.Int("o1"), z3.Int("o2")
        s1, s2, u1, u2 = z3.Int("s1"), z3.Int("s2"), z3.Int("u1"), z3.Int("u2")
        occ_tbl = [o1 >= 0, o1 < len(occ), o2 >= 0, o2 < len(occ),
                   table(o1, s1, [sid[s] for _, s in occ]), table(o2, s2, [sid[s] for _, s in occ]),
                   table(o1, u1, [ui for ui, _ in occ]), table(o2, u2, [ui for ui, _ in occ])]
        blocked = []
        while True:
            m = run.check("no identifier listed for two units", occ_tbl + [s1 == s2, u1 < u2] + blocked)
            if m is None:
                break
            a_, b_ = occ[m.eval(o1).as_long()], occ[m.eval(o2).as_long()]
            run.violations.append(("duplicate-identifier", "identifier %r is listed for both %s (%s) and %s (%s): neither resolves" % (
                a_[1], rows[a_[0]]["ids"][0], rows[a_[0]]["cat"], rows[b_[0]]["ids"][0], rows[b_[0]]["cat"]), [("resolve", a_[1])], {"expect_unit_any": [rows[a_[0]]["ids"][0], rows[b_[0]]["ids"][0]], "dup": a_[1]}))
            blocked.append(s1 != sid[a_[1]])
            if len(blocked) > 20:
                break

        # ---- Q7 early returns of convert() decided on the identifier strings (symbolic occurrence pair)
        for er in ex["comp"].get("early", []):
            def key(sx):
                return {"eq": sx, "eq_ascii_ci": "".join(ch.lower() if ch.isascii() else ch for ch in sx), "eq_ci": sx.lower()}[er["pred"]]
            keys = sorted(set(key(s_) for _, s_ in occ))
            kid = {k_: n_ for n_, k_ in enumerate(keys)}
            k1, k2 = z3.Int("k1"), z3.Int("k2")
            cat1, cat2, cf1, cf2 = z3.Int("cat1"), z3.Int("cat2"), z3.Real("cf1"), z3.Real("cf2")
            def coefkey(r):
                return Fraction(r["coef"]) if r["kind"] != "temperature" else Fraction(-1 - [t["ids"][0] for t in rows if t["kind"] == "temperature"].index(r["ids"][0]))
            et = occ_tbl + [table(o1, k1, [kid[key(s_)] for _, s_ in occ]), table(o2, k2, [kid[key(s_)] for _, s_ in occ]),
                            table(o1, cat1, [catid[rows[ui]["cat"]] for ui, _ in occ]), table(o2, cat2, [catid[rows[ui]["cat"]] for ui, _ in occ]),
                            z3.And(*[z3.Implies(o1 == n_, cf1 == z3.RealVal(coefkey(rows[ui]))) for n_, (ui, _) in enumerate(occ)]),
                            z3.And(*[z3.Implies(o2 == n_, cf2 == z3.RealVal(coefkey(rows[ui]))) for n_, (ui, _) in enumerate(occ)])]
            # the shortcut fires (k1 == k2) although the two identifiers denote units whose conversion is not
            # the identity (different category, or different coefficient / formula)
            m = run.check("early return of convert() only where the conversion is the identity", et + [k1 == k2, u1 != u2, z3.Or(cat1 != cat2, cf1 != cf2)] + ([cat1 == cat2] if er.get("after_guard") else []))
            if m is not None:
                a_, b_ = occ[m.eval(o1).as_long()], occ[m.eval(o2).as_long()]
                ra_, rb_ = rows[a_[0]], rows[b_[0]]
                if ra_["cat"] != rb_["cat"]:
                    meta = {"want_err": True}
                else:
                    meta = {"want": (1.0 * ra_["coef"] / rb_["coef"]) if ra_["kind"] == "linear" and rb_["kind"] == "linear" else float("nan")}
                run.violations.append(("early-return", "convert(x, %r, %r) takes a shortcut although %s and %s differ" % (a_[1], b_[1], ra_["ids"][0], rb_["ids"][0]), [("convert", 1.0, a_[1], b_[1])], meta))
            # the shortcut also bypasses resolution: unknown / ambiguous identifiers must still be errors
            if er["ok"] and not er.get("late"):
                m = run.check("early return of convert() does not bypass the ambiguity errors", sem + [z3.Not(res_ok)] + ([] if True else []))
                if m is not None:
                    s_ = strs[m.eval(q).as_long()]
                    run.violations.append(("early-return", "convert(x, %r, %r) returns a value although %r does not resolve" % (s_, s_, s_), [("convert", 1.0, s_, s_)], {"want_err": True}))

        # ---- replay every candidate violation through the real code
        confirmed, known_hits = [], []
        for kind, desc, reps, meta in run.violations:
            ok = True
            detail = []
            if reps:
                lines = []
                for rp in reps:
                    if rp[0] == "convert":
                        lines.append("convert\t%s\t%s\t%s" % (f2hex(rp[1]), rp[2], rp[3]))
                    else:
                        lines.append("resolve\t%s" % rp[1])
                outs = run_probe(binp, lines)
                replays += len(lines)
                detail = [{"input": l.replace("\t", " "), "native": o} for l, o in zip(lines, outs)]
                o = outs[0]
                if kind in ("self-conversion",):
                    xv = reps[0][1]
                    ok = o[0] != "ok" or abs(hex2f(o[1]) - xv) > (meta.get("abs") or 3 * float(U) * abs(xv))
                elif kind == "there-and-back":
                    if o[0] == "ok":
                        o2 = run_probe(binp, ["convert\t%s\t%s\t%s" % (o[1], reps[0][3], reps[0][2])])[0]
                        detail.append({"back": o2})
                        xv = reps[0][1]
                        ok = o2[0] != "ok" or abs(hex2f(o2[1]) - xv) > (meta.get("abs") or 6 * float(U) * abs(xv))
                elif kind == "transitivity":
                    o2 = outs[1]
                    if o[0] == "ok" and o2[0] == "ok":
                        o3 = run_probe(binp, ["convert\t%s\t%s\t%s" % (o[1], reps[0][3], meta["chain"])])[0]
                        detail.append({"via": o3})
                        d = hex2f(o2[1])
                        ok = o3[0] != "ok" or abs(hex2f(o3[1]) - d) > (meta.get("abs") or 9 * float(U) * abs(d))
                elif kind == "prefix-ratio":
                    xv = reps[0][1]
                    want = xv * meta["factor"]
                    ok = o[0] != "ok" or abs(hex2f(o[1]) - want) > 5 * float(U) * abs(want)
                elif kind == "category-guard":
                    ok = (o[0] == "ok") if meta.get("expect_err") else (o[0] != "ok")
                elif kind == "resolution":
                    if meta.get("expect_not_guess"):
                        ok = o[0] == "ok" and o[2] not in meta["allowed"]
                    elif meta.get("expect_err"):
                        ok = o[0] == "ok"
                    else:
                        ok = not (o[0] == "ok" and o[2] == meta["expect_unit"])
                elif kind == "early-return":
                    ok = (o[0] == "ok") if meta.get("want_err") else (o[0] != "ok" or abs(hex2f(o[1]) - meta["want"]) > 1e-9 * max(1.0, abs(meta["want"])))
                elif kind == "duplicate-identifier":
                    ok = not (o[0] == "ok" and o[2] in meta["expect_unit_any"])
            key = "%s: %s" % (kind, desc)
            k = None
            for kf in known.get("findings", []):
                if kf.get("property") == CID and re.search(kf["check"], key):
                    k = kf
            if not ok:
                run.inconclusive.append("counterexample did not reproduce natively: %s %s" % (key, detail))
            elif k:
                known_hits.append((key, k))
            else:
                confirmed.append((key, detail))
        for key, k in known_hits:
            print("KNOWN-FINDING: property=%s %s [%s]" % (CID, k["what"], key))
        if confirmed:
            os.makedirs(os.path.join(os.environ.get("VERIF_EVIDENCE_DIR", VERIF), "replays") if os.environ.get("VERIF_EVIDENCE_DIR") else os.path.join(VERIF, "replays"), exist_ok=True)
            rp = os.path.join(os.path.join(os.environ["VERIF_EVIDENCE_DIR"], "replays") if os.environ.get("VERIF_EVIDENCE_DIR") else os.path.join(VERIF, "replays"), "C17-units.json")
            json.dump({"property": CID, "violations": [{"what": k_, "native": d} for k_, d in confirmed],
                       "how_to_replay": "each entry lists the call made on blots_core::units::{convert,resolve_unit} (magnitudes as IEEE bit patterns) and what the real code returned"}, open(rp, "w"), indent=1)
            print("VIOLATION property=%s replay=%s" % (CID, rp))
            for k_, _ in confirmed:
                print("  " + k_)
            status = 1
        nviol = len(confirmed)
    except Inconclusive as e:
        run.inconclusive.append(str(e))
        nviol = 0
        known_hits = []
    for w in run.inconclusive:
        print("INCONCLUSIVE property=%s %s" % (CID, w))
    if run.inconclusive and status == 0:
        status = 2
    ev = {
        "property_id": CID, "tier": tier, "seed": seed, "level": "model_checking",
        "coverage": {
            "states": max(run.queries, 1),
            "transitions": max(run.unsat, 1),
            "traces_validated_against_impl": replays,
            "samples": run.samples or [{"note": "no query ran"}],
            "explanation": "states = SMT queries posed (negated property instances over symbolic unit index / magnitude / rounding-error variables); transitions = queries answered UNSAT; traces = native calls of units::convert / resolve_unit compared with the encoding (translator validation) or used to confirm a model",
            "queries": run.queries, "unsat": run.unsat, "solver_time_s": round(run.solver_time, 1),
            "second_opinions": {"per_solver": run.second, "wall_s": round(run.second_time, 1), "note": "thorough tier only: every UNSAT re-decided from the exported SMT-LIB text by cvc5 1.0 and z3 4.8.12; no-opinion = unknown / timeout / unsupported"},
            "units_extracted": len(ex["rows"]) if ex else 0,
            "identifiers_extracted": sum(len(r["ids"]) for r in ex["rows"]) if ex else 0,
            "functions_encoded": ["units::get_all_units (table)", "Unit::convert_to_base", "Unit::convert_from_base", "celsius_to_kelvin, kelvin_to_celsius, fahrenheit_to_kelvin, kelvin_to_fahrenheit, kelvin_to_kelvin", "units::convert (guard + composition)", "units::resolve_unit (decision list)"],
            "bounds": "magnitudes 1e-12..1e12 (both signs, zero), temperatures -1e6..1e6; every unit / ordered pair of a category (first unit enumerated, partner symbolic for transitivity); tolerances 3u / 6u / 9u relative (u = 2^-53), 2e-9 / 4e-9 K absolute",
            "outside_the_claim": "Unicode to_lowercase inside resolve_unit (modelled by Python's str.lower on the extracted identifiers); correctness of a non-prefixed coefficient such as 0.3048 (no independent oracle offline); magnitudes outside the range",
            "inconclusive": run.inconclusive,
            "known_findings_hit": [k for k, _ in known_hits],
        },
        "assumptions": [
            "IEEE-754 round-to-nearest modelled as relative error <= 2^-53 per operation over the reals (sound while intermediates stay normal; magnitude side condition checked per category)",
            "the encoding is regenerated from units.rs by a tokenizer/parser for the shapes the file uses today; an unrecognised shape makes the run inconclusive, never a pass",
            "translator validation: native units::convert results on sampled points must lie inside the encoding's error envelope on every run",
            "z3 4.x nonlinear real arithmetic (nlsat) is trusted for UNSAT answers; the thorough tier re-decides every UNSAT with cvc5 1.0 and z3 4.8.12 from the exported SMT-LIB text (a `sat` from either makes the run inconclusive)",
        ],
        "wall_s": round(time.time() - t0, 1),
        "violations": nviol,
    }
    os.makedirs(os.environ.get("VERIF_EVIDENCE_DIR", os.path.join(VERIF, "evidence")), exist_ok=True)
    json.dump(ev, open(os.path.join(os.environ.get("VERIF_EVIDENCE_DIR", os.path.join(VERIF, "evidence")), "C17.json"), "w"), indent=1)
    print("C17 %s: %d queries, %d unsat, %d violations, %d inconclusive, solver %.1f s, wall %.0f s" % (tier, run.queries, run.unsat, nviol, len(run.inconclusive), run.solver_time, time.time() - t0))
    return status


if __name__ == "__main__":
    sys.exit(main())
