#!/bin/bash
# usage: confirm_seed.sh <worktree> <mutation-dir-name> <property>   -> copies into /verif/seeded/<prop>-<name>/ with confirm.log
wt=$1; name=$2; prop=$3
out=/verif/seeded/$prop-$name
mkdir -p $out
cp $wt/out/$name/* $out/ 2>/dev/null
cd $wt || exit 1
git checkout -q -- . 
demo=$(ls out/$name/demo.sh 2>/dev/null)
{
echo "== clean tree demo"; (bash $demo < /dev/null > /tmp/demo_clean.$$ 2>&1; echo "exit=$?") ; tail -5 /tmp/demo_clean.$$
git apply out/$name/patch.diff && echo "== patch applied"
echo "== test suite with patch"; (cargo test --workspace --offline < /dev/null 2>&1 | grep -E "^test result" | awk '{p+=$4; f+=$6} END {print "passed="p" failed="f}')
echo "== patched demo"; (bash $demo < /dev/null > /tmp/demo_patched.$$ 2>&1; echo "exit=$?"); tail -5 /tmp/demo_patched.$$
git checkout -q -- .
} > $out/confirm.log 2>&1
rm -f /tmp/demo_clean.$$ /tmp/demo_patched.$$
tail -3 $out/confirm.log | head -1
grep -E "exit=|passed=" $out/confirm.log | tr '\n' ' '; echo
